#!/usr/bin/env python3
"""Regenerates /verif/MANIFEST.json from the table below (keeps it valid at all times)."""
import json
import os

VERIF = os.path.dirname(os.path.dirname(os.path.abspath(__file__)))
TECH = "deterministic simulation: seeded scheduler / choice stream + fault injection, model oracle, shrinking, exact replay"

# id -> (category, text, note)
CLAIMED = {
    "C01": ("exploration",
            "Seeded histories (1-40 operations, thorough up to 200) over the 16 Filespace methods plus buffer-mutation pseudo-operations on the memfs root and child views, paths in random spellings; refinement against ModelTree step by step: result class, then the whole tree walked through the public interface, queries in several spellings through every view, and every earlier returned slice/listing (snapshot clause). Single task, fault-free configuration of the simulator.",
            "Sampling of histories; unspecified cases (listed in the evidence assumptions) are accepted either way and cut the history when the resulting state is not defined by the statement."),
    "C03": ("exploration",
            "Bounded sweep plus random beyond: 16 view kinds (memory/disk child views to depth 3, disk root on a private host directory, encrypted children, read-only mask children, sub-path views and views of them, cache children and the cache's read-only buffer view) x 19 operation slots (16 operations, both arguments of the copies) x every path string of 1-3 segments and every 4-segment string containing '..' over {s,d,view,n,OUTSIDE_MARK,.,..,empty}; after each operation the snapshot of everything outside the view's root (host directory included for disk) must be byte-identical, no read may return sentinel bytes or names, no boolean query may reveal an outside node.",
            "The bounded part is enumerated completely when the run range covers the sweep size (it does in both tiers); longer strings are sampled. Single task; no schedule or fault dimension."),
    "C04": ("fault_enumeration",
            "Stream shape: Writer over absent/shorter/equal/longer prior content with random chunkings, read back through ReadFile and Reader with random buffer sizes and legal short reads, on memory, disk, encrypted (both ciphers, over both bases) and cache backends. Copy shape: random trees copied between every backend pair with StreamCopy / Copier / Copy (real fsloop under the seeded scheduler), destination pre-populated with longer files; a dry run counts the I/O positions on both sides, then every position x applicable fault kind (op-error, read-error, write-error, torn-write, close-error; above the stack or below the encryption) is injected once under the dry run's choices: helper returned nil => destination is a complete byte-exact copy.",
            "Every I/O position of each sampled copy is faulted (every k-th above 80); cases are sampled. No fault below diskfs (no seam)."),
    "C02": ("exploration",
            "The C01 history generator drives a memory and a disk filespace (each optionally behind a child view) in lock-step, each against its own copy of the model: inside the statement's preconditions both must give the model's result class and equal bytes and equal the model tree after every step; outside them no panic and no change outside the addressed paths (host directory above the disk root included), after which that side's model is re-synchronised.",
            "Sampling of histories; the disk side runs on a private directory of the real file system (no seam below diskfs, no faults)."),
    "C05": ("fault_enumeration",
            "Seeded configurations (cipher, base backend, secret, salt, host binding, plaintext, write path, prior stored version); round trip through a second instance by ReadFile and Reader; marker never in stored bytes; two writes differ; then every truncation length and every single-byte flip of the stored bytes (every k-th above 320 bytes), the emptied file, and readers with another secret or salt must all be answered with an error, never data, never a panic, never a stream left open; name-space history through the encrypted view refined against the model.",
            "All truncations and flips of each sampled file are enumerated; files are sampled. crypto/rand stays real."),
    "C06": ("fault_enumeration",
            "Seeded cases (initial remote tree, 1-25 cache operations on overlapping paths through the cache and its child views, intermediate Commits) run under the simulator (directory copies run a real fsloop); fault-free execution: remote untouched before Commit, remote = model (initial remote + accepted operations applied directly) after; then the final Commit is re-executed once for EVERY remote I/O position x applicable fault kind (op-error, write-error, torn-write, close-error) under the recorded choices of the dry run: the Commit must report the failure and a following fault-free Commit must bring the remote to the model tree (also after two failed Commits in a row). Journal iteration orders inside Commit are seeded choices.",
            "Every position of the last Commit of each sampled case is faulted; cases themselves are sampled. The model applies an operation only if the cache accepted it; histories are cut where the statement does not define the result."),
    "C07": ("exploration",
            "Same generator as C06 without faults and without Commit: after every mutating cache operation the whole tree seen through the cache (walk through the public interface), queries in several spellings through the cache and its child views, reads and listings are compared with the model (initial remote + accepted operations).",
            "Sampling of histories; only answers of read-type operations are judged (the statement says nothing about which mutations a cache must refuse)."),
    "C08": ("exploration",
            "Seeded search over schedules of the real fsloop producers, consumers and completion goroutine (all locks, wait groups, channel operations and a random subset of statement boundaries are scheduling points), over tree shapes, filters, limits, queue capacities, latencies and one injected listing/callback error; oracle: exactly-once multiset against a model walk, concurrency bound, wait-after-last-callback, termination under a fair tail.",
            "Sampling, not enumeration. Trusted: simrt primitives model sync faithfully; preemption granularity is the statement, not the instruction."),
    "C09": ("exploration",
            "Seeded schedules of 2-4 clients x 1-6 operations (files, streams, directory copies, removals, operations aimed at nodes of the wrong kind; one run in six with a 65-72 KB file) on a tiny shared name space of one memfs; invoke/return stamped with a global event counter; oracle = the statement's clauses: regular register per file (complete values only, no stale read after a completed overwrite), single-writer paths keep the writer's last value, final content is a written value, listings have unique names, no panic / deadlock, termination; happens-before probe on the directory index maps.",
            "Sampling. Full linearizability of the tree is deliberately not demanded (the statement does not make directory copies atomic). Races on plain fields are invisible under serialised execution."),
    "C10": ("exploration",
            "Seeded programs of definitions over 5 names in every registration order, dependency graphs (acyclic, cyclic, self-loops) realised by generated factories that resolve their edges by Get or by tag-driven InjectTo (required / optional), with transient failures and nil results on chosen invocations, followed by 1-20 requests (Get, InjectTo into generated structs, Keys, late definitions); a reference model of the statement predicts every outcome, every instance identity (singleton, explicit beats default) and every factory invocation count; a depth guard turns runaway recursion into a reported event.",
            "Sampling of programs. Single task: the provider is single-threaded by contract; the fault dimension is the factory failure plan."),
    "C11": ("exploration",
            "Seeded scope trees (1-6 scopes, depth <= 3, shared and isolated children, tasks, listeners that fail on one close-protocol event) and 2-5 actor scripts (done-task, append-error, kill, stop, exactly one Close per scope) under the seeded scheduler; recording listeners on all eight close-protocol events; oracle over the event log: before-close, exactly one triple, after-close, each once and in order and inside the Close call; the triple starts after every DoneTask and after every child's after-close; rollback / commit by the errors present (racing errors accepted either way); Close returns an error iff the context holds one; shared failure reaches the parent, isolated failure does not, an ended parent stops isolated children by quiescence; a second Close is refused loudly without repeating events.",
            "Sampling. The generated programs respect the documented contract (no mutating call on a scope object after its Close was invoked), enforced by a harness gate."),
    "C12": ("exploration",
            "Seeded search over schedules of 2-6 actors signalling one scope (plain, shared-context child, isolated child) with AppendError/Kill/Stop/IsDone/Err/Errors, and of child creation+close racing with the end of the parent, with 0-2 observers blocked on Done() that read the accessors when woken; oracle: no panic or fatal error, every appended error retained and reported by Err/Wait/Close, done exactly once, isolation of isolated children.",
            "Sampling. Data races on plain fields (the unsynchronised read of the error slice) are outside what serialised execution can observe."),
    "C13": ("exploration",
            "Sequential overlay histories on parent-child chains refined against a map-with-fall-through model; seeded schedules of 2-5 clients mixing locked read-modify-write sections with plain reads/writes on one data scope, the recorded history (a section is one operation, stamped with a global event counter) checked for linearizability against a sequential map with porcupine; N concurrent callers of the three get-or-create services must obtain one instance; a 2-3 level chain used by 2-4 tasks with locked sections reaching into descendants or falling through to ancestors (no task blocks for ever, reads attributable to writes at that level or above, own value wins); happens-before probe on the data maps.",
            "Sampling; histories <= 14 operations so the linearizability check stays tractable (timeouts are counted, never reported)."),
    "C14": ("exploration",
            "A complete application (mockup app, bootstrap with terminal, common, container and pipeline modules on memfs) is assembled inside the simulation; generated task DAGs (wait lists incl. unknown names, failing commands, nested pip:run, lock maps, simulated durations) are handed to the real Runner.Run by 1-2 submitters with gaps, each submission in its own child scope (isolated or shared context); probe commands log events; oracle over the event log: start after every prerequisite (and its nested tasks) finished, no body after a failed prerequisite and the task ends failed, body events are a prefix of the script ending at the first failing command, unknown wait names rejected, TasksManager.Wait returns (deadlock detector + fair tail) with an error iff some task failed, write-locked resources never overlap.",
            "Sampling of DAGs and schedules. Exact per-task outcomes are judged with isolated contexts only (with a shared context a failing task cancels its siblings)."),
    "C15": ("exploration",
            "Seeded schedules of 2-6 holders with random lock maps (any read/write mix incl. empty and full) over 4 resource names on the real SharedMutex; interval exclusion checked at every entry; a deterministic independence probe (holder A parked inside, a compatible holder B must enter); any cycle of waiters is reported by the simulator's deadlock detector; the order in which a lock map is walked is a seeded choice.",
            "Sampling. simrt.RWMutex follows Go's writer-preference algorithm, so lock-order and read-recursion deadlocks are detectable."),
    "C16": ("exploration",
            "The whole application of C14; pip:try issued through the real terminal service with generated bodies (failing command at any position, nested tasks that succeed or fail after a simulated delay) and every subset of success / fail / finally handlers, handlers that themselves fail at once or after simulated time, optionally a second try block in the same scope; oracle over the probe event log: handler iff outcome, finally always, every handler event later than every event of the body and of the tasks it spawned, the surrounding (session) scope holds an error iff a handler failed.",
            "Sampling. One known finding (a failing handler cancels the other handlers) is matched by its shape and reported as KNOWN-FINDING; all other clauses stay judged in those runs."),
    "C19": ("exploration",
            "Generated template sets (helpers, layouts, views with define names overlapping across layers and views) in a memfs and request sequences Base / Layout / View for the HTML and the text provider; sequential shape: cached and uncached providers side by side, every name rendered and compared with the layering rule (most specific layer wins, foreign views' and views' definitions invisible where they must be, asking twice agrees); concurrent shape: 2-5 tasks use one cached provider from its first use on under the seeded scheduler, all must get equivalent templates, no panic, and the happens-before probe must see no unsynchronised access to the cache maps.",
            "Sampling. The map probe replaces the Go runtime's own concurrent-map check, which cannot fire under serialised execution; races on plain pointers (the unlocked baseTemplate read) are outside its reach."),
    "C20": ("exploration",
            "Loader clause only: translation files with prefix-free dotted keys and values over quotes, backslashes, control and non-ASCII characters, written by encoding/json or by the library's emitter into random directory layouts of a memfs (plus decoys and empty directories); fsi18loader.Load runs its real fsloop under the seeded scheduler with MaxJob 1-4, I/O latency and optionally one injected read error, optionally a second Load into the same store that also overrides keys; Load returned nil => every key of every file translates to the value the standard JSON decoder yields for the written bytes; an injected fault => error reported or everything loaded; happens-before probe on the translation map.",
            "Sampling. The flatten/rebuild and emitter round-trip clauses are pure functions: exercised only where they lie on the loader path and not claimed (DESIGN.md section 5)."),
}

NOT_APPLICABLE = {
    "C17": "pure function of its input byte string: no schedule, clock, fault or interleaving for a simulator to control (DESIGN.md section 5)",
    "C18": "pure script builder whose observable is the external /bin/sh; nothing the simulator schedules or can inject faults into (DESIGN.md section 5)",
}

FIX_COMMITS = "Fix commits in /repo are listed with their property in known_findings.json (status fixed)."


def main():
    props = [json.loads(l) for l in open(os.path.join(VERIF, "properties.jsonl"))]
    checks = []
    na = []
    for p in props:
        pid = p["id"]
        if pid in CLAIMED:
            cat, text, note = CLAIMED[pid]
            checks.append({
                "property_id": pid,
                "quick_cmd": "bin/check %s quick" % pid,
                "thorough_cmd": "bin/check %s thorough" % pid,
                "evidence_file": "/verif/evidence/%s.json" % pid,
                "replay_cmd_template": "bin/check --replay {path}",
                "engine": "simcheck",
                "level_claimed": {"category": cat, "text": text, "design_ref": "DESIGN.md section 4 " + pid},
                "level_note": note,
                "technique": TECH,
            })
        elif pid in NOT_APPLICABLE:
            na.append({"property_id": pid, "reason": NOT_APPLICABLE[pid]})
        else:
            na.append({"property_id": pid, "reason": "check not built yet in this revision (see DESIGN.md build order)"})
    m = {
        "version": 1,
        "setup_cmd": "bin/check --build",
        "hooks": {
            "guard": "none: no hook is committed to /repo; instrumentation is generated into a scratch copy of the working tree by tools/simgen at check time",
            "enable": "bin/check --build (rsync working tree -> scratch, simgen rewrite, go1.26.8 test -c)",
            "baseline_off_cmd": "cd /repo && go test -mod=mod -vet=off -count=1 -timeout 25m ./...",
            "source_commits": [],
            "add_only": True,
        },
        "engines": [{
            "name": "simcheck",
            "path": "/verif/sim, /verif/simrt, /verif/tools/simgen, /verif/bin/check",
            "serves_properties": sorted(CLAIMED),
            "kind_free_text": "deterministic simulation with fault injection: seeded baton scheduler over testing/synctest, source-to-source instrumentation, FaultFS, reference models, shrinking and exact replay",
        }],
        "checks": checks,
        "not_applicable": na,
        "notes": "See DESIGN.md. " + FIX_COMMITS,
    }
    json.dump(m, open(os.path.join(VERIF, "MANIFEST.json"), "w"), indent=1)
    print("MANIFEST.json: %d checks, %d not applicable" % (len(checks), len(na)))


if __name__ == "__main__":
    main()
