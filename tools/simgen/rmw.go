package main

import (
	"go/ast"
	"go/token"
	"go/types"

	"golang.org/x/tools/go/ast/astutil"
)

// Read-modify-write statements on shared locations are one statement in the source but a
// load, a computation and a store for the machine: x.n++, x.n += d, x.list = append(x.list, v),
// x.n = f(x.n).  rmwPass splits them so that the statement pass puts a preemption site
// between the load and the store:
//
//	_simp1 := &x.list ; _simt2 := *_simp1 ; *_simp1 = append(_simt2, v)
//
// The address is taken once (as the machine does), so the only behaviour added is that
// another task may run between load and store - which real execution allows whenever no
// lock forbids it.  "Shared" = reached through a pointer, a package-level variable, or a
// local variable captured by a function literal.  Map elements are left to the map probe.

func (r *rewriter) capturedVars() map[*types.Var]bool {
	captured := map[*types.Var]bool{}
	var lits []*ast.FuncLit
	ast.Inspect(r.file, func(n ast.Node) bool {
		if fl, ok := n.(*ast.FuncLit); ok {
			lits = append(lits, fl)
		}
		return true
	})
	for _, fl := range lits {
		ast.Inspect(fl.Body, func(n ast.Node) bool {
			id, ok := n.(*ast.Ident)
			if !ok {
				return true
			}
			v, ok := r.info.Uses[id].(*types.Var)
			if !ok || v.IsField() || v.Pkg() == nil {
				return true
			}
			if v.Parent() == v.Pkg().Scope() {
				return true
			}
			if v.Pos() < fl.Pos() || v.Pos() > fl.End() {
				captured[v] = true
			}
			return true
		})
	}
	return captured
}

// pure: evaluating e has no side effect and involves no call, channel or map operation.
func (r *rewriter) pure(e ast.Expr) bool {
	switch x := e.(type) {
	case *ast.Ident:
		return true
	case *ast.BasicLit:
		return true
	case *ast.ParenExpr:
		return r.pure(x.X)
	case *ast.StarExpr:
		return r.pure(x.X)
	case *ast.SelectorExpr:
		if _, ok := r.info.Selections[x]; ok {
			return r.pure(x.X)
		}
		if id, ok := x.X.(*ast.Ident); ok { // pkg.Var
			if _, isPkg := r.info.Uses[id].(*types.PkgName); isPkg {
				_, isVar := r.info.Uses[x.Sel].(*types.Var)
				return isVar
			}
		}
		return false
	case *ast.IndexExpr:
		if r.isMap(x.X) {
			return false
		}
		return r.pure(x.X) && r.pure(x.Index)
	}
	return false
}

// shared: the location e denotes may be visible to another task.
func (r *rewriter) shared(e ast.Expr, captured map[*types.Var]bool) bool {
	switch x := e.(type) {
	case *ast.ParenExpr:
		return r.shared(x.X, captured)
	case *ast.StarExpr:
		return true
	case *ast.Ident:
		v, ok := r.info.Uses[x].(*types.Var)
		if !ok || v.Pkg() == nil {
			return false
		}
		return v.Parent() == v.Pkg().Scope() || captured[v]
	case *ast.SelectorExpr:
		if sel, ok := r.info.Selections[x]; ok {
			if sel.Kind() != types.FieldVal {
				return false
			}
			if sel.Indirect() {
				return true
			}
			if t := r.info.TypeOf(x.X); t != nil {
				if _, isPtr := t.Underlying().(*types.Pointer); isPtr {
					return true
				}
			}
			return r.shared(x.X, captured)
		}
		if id, ok := x.X.(*ast.Ident); ok {
			if _, isPkg := r.info.Uses[id].(*types.PkgName); isPkg {
				_, isVar := r.info.Uses[x.Sel].(*types.Var)
				return isVar
			}
		}
		return false
	case *ast.IndexExpr:
		if r.isMap(x.X) {
			return false
		}
		if t := r.info.TypeOf(x.X); t != nil {
			switch t.Underlying().(type) {
			case *types.Slice, *types.Pointer:
				return true // elements of a slice live behind a pointer
			}
		}
		return r.shared(x.X, captured)
	}
	return false
}

var opOfAssign = map[token.Token]token.Token{
	token.ADD_ASSIGN: token.ADD, token.SUB_ASSIGN: token.SUB, token.MUL_ASSIGN: token.MUL,
	token.QUO_ASSIGN: token.QUO, token.REM_ASSIGN: token.REM, token.AND_ASSIGN: token.AND,
	token.OR_ASSIGN: token.OR, token.XOR_ASSIGN: token.XOR, token.SHL_ASSIGN: token.SHL,
	token.SHR_ASSIGN: token.SHR, token.AND_NOT_ASSIGN: token.AND_NOT,
}

func (r *rewriter) rmwPass() {
	captured := r.capturedVars()
	nsplit := 0
	astutil.Apply(r.file, func(c *astutil.Cursor) bool {
		st, ok := c.Node().(ast.Stmt)
		if !ok || c.Index() < 0 {
			return true
		}
		var lhs ast.Expr
		var build func(t *ast.Ident) ast.Expr // the value to store, given the loaded value
		switch s := st.(type) {
		case *ast.IncDecStmt:
			lhs = s.X
			op := token.ADD
			if s.Tok == token.DEC {
				op = token.SUB
			}
			build = func(t *ast.Ident) ast.Expr {
				return &ast.BinaryExpr{X: t, Op: op, Y: &ast.BasicLit{Kind: token.INT, Value: "1"}}
			}
		case *ast.AssignStmt:
			if len(s.Lhs) != 1 || len(s.Rhs) != 1 {
				return true
			}
			lhs = s.Lhs[0]
			if op, ok := opOfAssign[s.Tok]; ok {
				rhs := s.Rhs[0]
				if hasFuncLit(rhs) {
					return true
				}
				build = func(t *ast.Ident) ast.Expr {
					return &ast.BinaryExpr{X: t, Op: op, Y: &ast.ParenExpr{X: rhs}}
				}
			} else if s.Tok == token.ASSIGN {
				occ, ok := r.occurrences(lhs, s.Rhs[0])
				if !ok || len(occ) == 0 {
					return true
				}
				rhs := s.Rhs[0]
				build = func(t *ast.Ident) ast.Expr {
					return astutil.Apply(rhs, func(c *astutil.Cursor) bool {
						if e, ok := c.Node().(ast.Expr); ok && occ[e] {
							c.Replace(ast.NewIdent(t.Name))
							return false
						}
						return true
					}, nil).(ast.Expr)
				}
			} else {
				return true
			}
		default:
			return true
		}
		lhs = unparen(lhs)
		if isBlank(lhs) || !r.pure(lhs) || !r.shared(lhs, captured) {
			return true
		}
		if tv, ok := r.info.Types[lhs]; !ok || !tv.Addressable() {
			return true
		}
		p, t := r.name("p"), r.name("t")
		s1 := define(p, &ast.UnaryExpr{Op: token.AND, X: lhs})
		s2 := define(t, &ast.StarExpr{X: ast.NewIdent(p.Name)})
		s3 := &ast.AssignStmt{Lhs: []ast.Expr{&ast.StarExpr{X: ast.NewIdent(p.Name)}}, Tok: token.ASSIGN, Rhs: []ast.Expr{build(t)}}
		pos := r.stmtPos[st]
		r.stmtPos[s1], r.stmtPos[s2], r.stmtPos[s3] = pos, pos, pos
		r.rmwStore[s3] = true
		c.InsertBefore(s1)
		c.InsertBefore(s2)
		c.Replace(s3)
		nsplit++
		return false
	}, nil)
	rmwSplits += nsplit
}

func hasFuncLit(e ast.Expr) bool {
	found := false
	ast.Inspect(e, func(n ast.Node) bool {
		if _, ok := n.(*ast.FuncLit); ok {
			found = true
		}
		return !found
	})
	return found
}

// occurrences finds the sub-expressions of rhs that are syntactically the location lhs and
// are plain loads of it. ok=false: some occurrence is not a plain load (address taken,
// method receiver, inside a function literal) and the statement is left alone.
func (r *rewriter) occurrences(lhs, rhs ast.Expr) (map[ast.Expr]bool, bool) {
	lhs = unparen(lhs)
	if !r.pure(lhs) {
		return nil, false
	}
	if t := r.info.TypeOf(lhs); t != nil {
		switch t.Underlying().(type) {
		case *types.Struct, *types.Array:
			return nil, false
		}
	}
	want := types.ExprString(lhs)
	occ := map[ast.Expr]bool{}
	ok := true
	var walk func(n ast.Node, parent ast.Node)
	walk = func(n ast.Node, parent ast.Node) {
		if n == nil || !ok {
			return
		}
		if _, isLit := n.(*ast.FuncLit); isLit {
			ast.Inspect(n, func(m ast.Node) bool {
				if e, isE := m.(ast.Expr); isE && types.ExprString(e) == want {
					ok = false
				}
				return ok
			})
			return
		}
		if e, isE := n.(ast.Expr); isE && types.ExprString(unparen(e)) == want && r.sameObject(lhs, e) {
			if _, isParen := e.(*ast.ParenExpr); !isParen {
				switch p := parent.(type) {
				case *ast.UnaryExpr:
					if p.Op == token.AND {
						ok = false
						return
					}
				case *ast.SelectorExpr:
					if sel, has := r.info.Selections[p]; has && sel.Kind() != types.FieldVal {
						ok = false // method value / call on the location
						return
					}
				}
				occ[e] = true
				return
			}
		}
		var children []ast.Node
		first := true
		ast.Inspect(n, func(m ast.Node) bool {
			if first {
				first = false
				return true
			}
			if m != nil {
				children = append(children, m)
			}
			return false
		})
		for _, ch := range children {
			walk(ch, n)
		}
	}
	walk(rhs, nil)
	return occ, ok
}

// sameObject: an identifier occurrence must resolve to the variable lhs names (a field name
// in a selector or a composite-literal key may merely be spelled the same).
func (r *rewriter) sameObject(lhs, e ast.Expr) bool {
	li, ok := lhs.(*ast.Ident)
	if !ok {
		return true
	}
	ei, ok := unparen(e).(*ast.Ident)
	if !ok {
		return false
	}
	return r.info.Uses[ei] != nil && r.info.Uses[ei] == r.info.Uses[li]
}

var rmwSplits int
