// simgen instruments a scratch copy of goatcore for deterministic simulation.
//
//	simgen -src <copy of /repo without test files> -sites <sites.json> [-const2var pkg.Name,...]
//
// Rewrites (all in place, non-test files only):
//
//  1. import "sync"            -> import sync "simrt"  (Mutex, RWMutex, WaitGroup, Once, Locker)
//  2. go f(a)                  -> evaluated operands + simrt.Go(func(){ f(a0) })
//  3. ch <- v, <-ch, close(ch), len(ch)/cap(ch), time.Sleep
//     -> bracketed with simrt.Pre/Post (PreNB when the operation cannot block);
//     select -> simrt.Select + switch (the pick among ready clauses becomes a recorded choice)
//  4. runtime.Gosched()        -> simrt.Gosched()
//  5. for k, v := range map    -> iteration over simrt.RangeKeys (seeded order)
//  6. map reads / writes       -> simrt.MR / simrt.MW probes (happens-before race probe)
//  7. simrt.P(site) before every statement (site marker + optional preemption)
//  8. -const2var: listed constants become variables (tuning knobs)
//  9. x.n++, x.n += d, x.l = append(x.l, v) on shared locations -> load ; site ; store (rmw.go)
// 10. for x := range ch -> loop around a bracketed receive; defer close(ch) -> defer simrt.Close(ch)
// 11. debug.Stack()            -> simrt.Stack() (constant text unless SIM_REAL_STACK is set)
//
// Anything in a position the rewriter does not handle stops it with exit status 2
// (fail closed): the check then reports "could not be built", never pass or violation.
package main

import (
	"bytes"
	"encoding/json"
	"flag"
	"fmt"
	"go/ast"
	"go/format"
	"go/token"
	"go/types"
	"os"
	"path/filepath"
	"sort"
	"strconv"
	"strings"

	"golang.org/x/tools/go/ast/astutil"
	"golang.org/x/tools/go/packages"
)

type site struct {
	ID   int    `json:"id"`
	File string `json:"file"`
	Line int    `json:"line"`
	Kind string `json:"kind"`
	Func string `json:"func,omitempty"`
}

var (
	sites    []site
	srcRoot  string
	failures []string
)

func failf(fset *token.FileSet, pos token.Pos, format string, args ...interface{}) {
	p := fset.Position(pos)
	failures = append(failures, fmt.Sprintf("%s:%d: %s", rel(p.Filename), p.Line, fmt.Sprintf(format, args...)))
}

func rel(f string) string {
	if r, err := filepath.Rel(srcRoot, f); err == nil {
		return r
	}
	return f
}

func main() {
	src := flag.String("src", "", "scratch copy of the repository (modified in place)")
	sitesOut := flag.String("sites", "", "where to write sites.json")
	c2v := flag.String("const2var", "", "comma separated pkgpath.Name constants to turn into variables")
	flag.Parse()
	if *src == "" {
		fmt.Fprintln(os.Stderr, "simgen: -src required")
		os.Exit(2)
	}
	var err error
	srcRoot, err = filepath.Abs(*src)
	if err != nil {
		die(err)
	}
	const2var := map[string]bool{}
	for _, s := range strings.Split(*c2v, ",") {
		if s != "" {
			const2var[s] = true
		}
	}
	cfg := &packages.Config{
		Dir:   srcRoot,
		Mode:  packages.NeedName | packages.NeedFiles | packages.NeedSyntax | packages.NeedTypes | packages.NeedTypesInfo | packages.NeedImports | packages.NeedDeps | packages.NeedCompiledGoFiles,
		Tests: false,
	}
	pkgs, err := packages.Load(cfg, "./...")
	if err != nil {
		die(err)
	}
	sort.Slice(pkgs, func(i, j int) bool { return pkgs[i].PkgPath < pkgs[j].PkgPath })
	nerr := 0
	for _, p := range pkgs {
		for _, e := range p.Errors {
			fmt.Fprintln(os.Stderr, "simgen: load error:", e)
			nerr++
		}
	}
	if nerr > 0 {
		os.Exit(2)
	}
	sites = append(sites, site{ID: 0, Kind: "none"})
	nfiles := 0
	for _, p := range pkgs {
		for i, f := range p.Syntax {
			name := p.CompiledGoFiles[i]
			if !strings.HasPrefix(name, srcRoot) || strings.HasSuffix(name, "_test.go") {
				continue
			}
			r := &rewriter{pkg: p, file: f, fset: p.Fset, info: p.TypesInfo, fname: rel(name), const2var: const2var}
			for _, cg := range f.Comments {
				for _, c := range cg.List {
					if strings.HasPrefix(c.Text, "//go:build") || strings.HasPrefix(c.Text, "// +build") || strings.HasPrefix(c.Text, "//go:embed") || strings.HasPrefix(c.Text, "//go:linkname") {
						failf(p.Fset, c.Pos(), "directive comment %q (comments are dropped by the rewriter)", c.Text)
					}
				}
			}
			// comments carry positions that no longer fit the rewritten tree; drop them
			f.Comments = nil
			r.run()
			var buf bytes.Buffer
			if err := format.Node(&buf, p.Fset, f); err != nil {
				die(fmt.Errorf("%s: %v", name, err))
			}
			if err := os.WriteFile(name, buf.Bytes(), 0o644); err != nil {
				die(err)
			}
			nfiles++
		}
	}
	for k, used := range const2var {
		if used {
			failures = append(failures, "const2var: constant "+k+" not found")
		}
	}
	if len(failures) > 0 {
		for _, f := range failures {
			fmt.Fprintln(os.Stderr, "simgen: unsupported:", f)
		}
		os.Exit(2)
	}
	if *sitesOut != "" {
		b, _ := json.Marshal(sites)
		if err := os.WriteFile(*sitesOut, b, 0o644); err != nil {
			die(err)
		}
	}
	fmt.Printf("simgen: %d packages, %d files, %d sites, %d read-modify-write statements split\n", len(pkgs), nfiles, len(sites)-1, rmwSplits)
}

func die(err error) {
	fmt.Fprintln(os.Stderr, "simgen:", err)
	os.Exit(2)
}

type rewriter struct {
	pkg       *packages.Package
	file      *ast.File
	fset      *token.FileSet
	info      *types.Info
	fname     string
	const2var map[string]bool
	needSimrt bool
	tmp       int
	curFunc   string
	handled   map[ast.Node]bool // channel operations that were bracketed
	stmtPos   map[ast.Stmt]token.Pos
	rmwStore  map[ast.Stmt]bool // stores produced by rmwPass: their site kind is "rmw-store"
}

func (r *rewriter) newSite(pos token.Pos, kind string) int {
	p := r.fset.Position(pos)
	id := len(sites)
	sites = append(sites, site{ID: id, File: r.fname, Line: p.Line, Kind: kind, Func: r.curFunc})
	return id
}

func (r *rewriter) name(prefix string) *ast.Ident {
	r.tmp++
	return ast.NewIdent(fmt.Sprintf("_sim%s%d", prefix, r.tmp))
}

func simrtSel(name string) ast.Expr {
	return &ast.SelectorExpr{X: ast.NewIdent("simrt"), Sel: ast.NewIdent(name)}
}

func call(fun ast.Expr, args ...ast.Expr) *ast.CallExpr {
	return &ast.CallExpr{Fun: fun, Args: args}
}

func intLit(n int) ast.Expr { return &ast.BasicLit{Kind: token.INT, Value: strconv.Itoa(n)} }

func define(lhs ast.Expr, rhs ast.Expr) ast.Stmt {
	return &ast.AssignStmt{Lhs: []ast.Expr{lhs}, Tok: token.DEFINE, Rhs: []ast.Expr{rhs}}
}

func (r *rewriter) run() {
	r.handled = map[ast.Node]bool{}
	// statement positions, before the expression pass replaces nodes that carry them
	r.stmtPos = map[ast.Stmt]token.Pos{}
	ast.Inspect(r.file, func(n ast.Node) bool {
		if st, ok := n.(ast.Stmt); ok {
			r.stmtPos[st] = st.Pos()
		}
		return true
	})
	// 1. sync -> simrt (import alias keeps every selector valid)
	for _, imp := range r.file.Imports {
		path, _ := strconv.Unquote(imp.Path.Value)
		if path == "sync" {
			name := "sync"
			if imp.Name != nil {
				name = imp.Name.Name
			}
			if name == "." || name == "_" {
				failf(r.fset, imp.Pos(), "dot/blank import of sync")
			}
			imp.Path.Value = `"simrt"`
			imp.Name = ast.NewIdent(name)
		}
		if path == "sync/atomic" {
			// atomics are single indivisible operations; they stay real. They give no
			// scheduling point by themselves, statement sites around them do.
		}
	}
	r.const2varPass()
	r.rmwStore = map[ast.Stmt]bool{}
	r.rmwPass()
	r.exprPass()
	// statement pass over every function body (FuncLits are reached from inside)
	for _, d := range r.file.Decls {
		switch fd := d.(type) {
		case *ast.FuncDecl:
			r.curFunc = fd.Name.Name
			if fd.Recv != nil && len(fd.Recv.List) == 1 {
				r.curFunc = types.ExprString(fd.Recv.List[0].Type) + "." + fd.Name.Name
			}
			if fd.Body != nil {
				r.block(fd.Body)
			}
		case *ast.GenDecl:
			r.curFunc = "(package level)"
			r.funcLitsIn(fd)
		}
	}
	r.finalCheck()
	if r.needSimrt {
		astutil.AddNamedImport(r.fset, r.file, "simrt", "simrt")
	}
	for _, path := range []string{"runtime", "time", "runtime/debug"} {
		if importsPath(r.file, path) && !astutil.UsesImport(r.file, path) {
			astutil.DeleteImport(r.fset, r.file, path)
		}
	}
}

func importsPath(f *ast.File, path string) bool {
	for _, imp := range f.Imports {
		if p, _ := strconv.Unquote(imp.Path.Value); p == path && imp.Name == nil {
			return true
		}
	}
	return false
}

// ---------------------------------------------------------------------------------
// const -> var

func (r *rewriter) const2varPass() {
	var extra []ast.Decl
	for _, d := range r.file.Decls {
		gd, ok := d.(*ast.GenDecl)
		if !ok || gd.Tok != token.CONST {
			continue
		}
		var keep []ast.Spec
		for _, sp := range gd.Specs {
			vs := sp.(*ast.ValueSpec)
			moved := false
			if len(vs.Names) == 1 && len(vs.Values) == 1 {
				key := r.pkg.PkgPath + "." + vs.Names[0].Name
				if r.const2var[key] {
					r.const2var[key] = false
					extra = append(extra, &ast.GenDecl{Tok: token.VAR, Specs: []ast.Spec{&ast.ValueSpec{Names: vs.Names, Type: vs.Type, Values: vs.Values}}})
					moved = true
				}
			}
			if !moved {
				keep = append(keep, sp)
			}
		}
		gd.Specs = keep
	}
	r.file.Decls = append(r.file.Decls, extra...)
	// drop const decls that became empty
	var decls []ast.Decl
	for _, d := range r.file.Decls {
		if gd, ok := d.(*ast.GenDecl); ok && gd.Tok == token.CONST && len(gd.Specs) == 0 {
			continue
		}
		decls = append(decls, d)
	}
	r.file.Decls = decls
}

// ---------------------------------------------------------------------------------
// expression pass: map probes, len(chan), Gosched, Sleep

func (r *rewriter) isMap(e ast.Expr) bool {
	t := r.info.TypeOf(e)
	if t == nil {
		return false
	}
	_, ok := t.Underlying().(*types.Map)
	return ok
}

func (r *rewriter) isChan(e ast.Expr) bool {
	t := r.info.TypeOf(e)
	if t == nil {
		return false
	}
	_, ok := t.Underlying().(*types.Chan)
	return ok
}

func (r *rewriter) isPkgFunc(fun ast.Expr, pkg, name string) bool {
	sel, ok := fun.(*ast.SelectorExpr)
	if !ok || sel.Sel.Name != name {
		return false
	}
	id, ok := sel.X.(*ast.Ident)
	if !ok {
		return false
	}
	pn, ok := r.info.Uses[id].(*types.PkgName)
	return ok && pn.Imported().Path() == pkg
}

func (r *rewriter) isBuiltin(fun ast.Expr, name string) bool {
	id, ok := fun.(*ast.Ident)
	if !ok || id.Name != name {
		return false
	}
	_, ok = r.info.Uses[id].(*types.Builtin)
	return ok
}

func unparen(e ast.Expr) ast.Expr {
	for {
		p, ok := e.(*ast.ParenExpr)
		if !ok {
			return e
		}
		e = p.X
	}
}

func (r *rewriter) exprPass() {
	writes := map[*ast.IndexExpr]bool{}
	ast.Inspect(r.file, func(n ast.Node) bool {
		switch st := n.(type) {
		case *ast.AssignStmt:
			for _, l := range st.Lhs {
				if ix, ok := unparen(l).(*ast.IndexExpr); ok {
					writes[ix] = true
				}
			}
		case *ast.IncDecStmt:
			if ix, ok := unparen(st.X).(*ast.IndexExpr); ok {
				writes[ix] = true
			}
		case *ast.RangeStmt:
			for _, l := range []ast.Expr{st.Key, st.Value} {
				if l == nil {
					continue
				}
				if ix, ok := unparen(l).(*ast.IndexExpr); ok {
					writes[ix] = true
				}
			}
		}
		return true
	})
	var actions []func()
	curFunc := "(package level)"
	ast.Inspect(r.file, func(n ast.Node) bool {
		switch e := n.(type) {
		case *ast.FuncDecl:
			curFunc = e.Name.Name
		case *ast.IndexExpr:
			if r.isMap(e.X) {
				kind, fn := "mapread", "MR"
				if writes[e] {
					kind, fn = "mapwrite", "MW"
				}
				ex := e
				cf := curFunc
				actions = append(actions, func() {
					r.curFunc = cf
					ex.X = call(simrtSel(fn), ex.X, intLit(r.newSite(ex.Pos(), kind)))
					r.needSimrt = true
				})
			}
		case *ast.CallExpr:
			switch {
			case (r.isBuiltin(e.Fun, "len")) && len(e.Args) == 1 && r.isMap(e.Args[0]):
				ex, cf := e, curFunc
				actions = append(actions, func() {
					r.curFunc = cf
					ex.Args[0] = call(simrtSel("MR"), ex.Args[0], intLit(r.newSite(ex.Pos(), "mapread")))
					r.needSimrt = true
				})
			case r.isBuiltin(e.Fun, "delete") && len(e.Args) == 2 && r.isMap(e.Args[0]):
				ex, cf := e, curFunc
				actions = append(actions, func() {
					r.curFunc = cf
					ex.Args[0] = call(simrtSel("MW"), ex.Args[0], intLit(r.newSite(ex.Pos(), "mapwrite")))
					r.needSimrt = true
				})
			case (r.isBuiltin(e.Fun, "len") || r.isBuiltin(e.Fun, "cap")) && len(e.Args) == 1 && r.isChan(e.Args[0]):
				ex := e
				actions = append(actions, func() {
					inner := *ex
					*ex = ast.CallExpr{Fun: simrtSel("After"), Args: []ast.Expr{&inner}}
					r.needSimrt = true
				})
			case r.isPkgFunc(e.Fun, "runtime", "Gosched"):
				ex := e
				actions = append(actions, func() {
					ex.Fun = simrtSel("Gosched")
					r.needSimrt = true
				})
			case r.isPkgFunc(e.Fun, "runtime/debug", "Stack"):
				// goaterr captures a stack trace for every error value; no oracle reads it and it
				// dominates the cost of histories with many refused operations
				ex := e
				actions = append(actions, func() {
					ex.Fun = simrtSel("Stack")
					r.needSimrt = true
				})
			case r.isPkgFunc(e.Fun, "time", "Sleep"):
				ex := e
				actions = append(actions, func() {
					ex.Fun = simrtSel("Sleep")
					r.needSimrt = true
				})
			case r.isPkgFunc(e.Fun, "time", "After"), r.isPkgFunc(e.Fun, "time", "Tick"),
				r.isPkgFunc(e.Fun, "time", "NewTimer"), r.isPkgFunc(e.Fun, "time", "NewTicker"),
				r.isPkgFunc(e.Fun, "time", "AfterFunc"):
				failf(r.fset, e.Pos(), "timer API %s is not modelled", types.ExprString(e.Fun))
			}
		case *ast.SelectorExpr:
			if id, ok := e.X.(*ast.Ident); ok {
				if pn, ok := r.info.Uses[id].(*types.PkgName); ok && pn.Imported().Path() == "sync" {
					switch e.Sel.Name {
					case "Mutex", "RWMutex", "WaitGroup", "Once", "Locker", "Cond", "NewCond", "Map", "Pool":
					default:
						failf(r.fset, e.Pos(), "sync.%s is not modelled by simrt", e.Sel.Name)
					}
				}
			}
		}
		return true
	})
	for _, a := range actions {
		a()
	}
}

// ---------------------------------------------------------------------------------
// statement pass

func (r *rewriter) block(b *ast.BlockStmt) {
	if b != nil {
		b.List = r.stmts(b.List, nil)
	}
}

func (r *rewriter) pStmt(pos token.Pos) ast.Stmt {
	r.needSimrt = true
	return &ast.ExprStmt{X: call(simrtSel("P"), intLit(r.newSite(pos, "stmt")))}
}

// stmts rewrites a statement list. first, when non-nil, is put in front (select clauses:
// the Post call must be the first thing a woken task executes).
func (r *rewriter) stmts(list []ast.Stmt, first ast.Stmt) []ast.Stmt {
	var out []ast.Stmt
	if first != nil {
		out = append(out, first)
	}
	for _, st := range list {
		out = append(out, r.stmt(st, nil)...)
	}
	return out
}

// funcLitsIn processes function literals found in the expressions of n (not descending
// into nested statements, which the statement pass reaches itself).
func (r *rewriter) funcLitsIn(n ast.Node) {
	if n == nil {
		return
	}
	ast.Inspect(n, func(x ast.Node) bool {
		if fl, ok := x.(*ast.FuncLit); ok {
			r.block(fl.Body)
			return false
		}
		return true
	})
}

func (r *rewriter) exprs(es ...ast.Expr) {
	for _, e := range es {
		if e != nil {
			r.funcLitsIn(e)
		}
	}
}

// recvOf returns the receive expression if e is <-ch (possibly parenthesised).
func recvOf(e ast.Expr) *ast.UnaryExpr {
	u, ok := unparen(e).(*ast.UnaryExpr)
	if ok && u.Op == token.ARROW {
		return u
	}
	return nil
}

// simpleRecv recognises the statement forms "<-ch", "x := <-ch", "x, ok = <-ch".
func simpleRecv(st ast.Stmt) *ast.UnaryExpr {
	switch s := st.(type) {
	case *ast.ExprStmt:
		return recvOf(s.X)
	case *ast.AssignStmt:
		if len(s.Rhs) == 1 {
			return recvOf(s.Rhs[0])
		}
	}
	return nil
}

func (r *rewriter) bracketRecv(st ast.Stmt, u *ast.UnaryExpr, label *ast.Ident) []ast.Stmt {
	r.needSimrt = true
	r.handled[u] = true
	c, h := r.name("c"), r.name("h")
	pre := []ast.Stmt{
		define(c, u.X),
		define(h, call(simrtSel("Pre"), c)),
	}
	u.X = ast.NewIdent(c.Name)
	post := &ast.ExprStmt{X: call(simrtSel("Post"), ast.NewIdent(h.Name))}
	return append(append(pre, labeled(label, st)), post)
}

func labeled(label *ast.Ident, st ast.Stmt) ast.Stmt {
	if label == nil {
		return st
	}
	return &ast.LabeledStmt{Label: label, Stmt: st}
}

// stmt rewrites one statement and returns what replaces it (site marker first).
func (r *rewriter) stmt(st ast.Stmt, label *ast.Ident) []ast.Stmt {
	if ls, ok := st.(*ast.LabeledStmt); ok {
		if label != nil {
			failf(r.fset, st.Pos(), "doubly labelled statement")
		}
		return r.stmt(ls.Stmt, ls.Label)
	}
	pos := st.Pos()
	if p, ok := r.stmtPos[st]; ok {
		pos = p
	}
	out := []ast.Stmt{r.pStmt(pos)}
	if r.rmwStore[st] {
		sites[len(sites)-1].Kind = "rmw-store"
	}
	switch s := st.(type) {
	case *ast.BlockStmt:
		r.block(s)
	case *ast.IfStmt:
		return append(out, r.ifStmt(s, label)...)
	case *ast.ForStmt:
		r.noChanOps(s.Init, s.Post)
		r.exprs(s.Cond)
		if s.Init != nil {
			r.funcLitsIn(s.Init)
		}
		if s.Post != nil {
			r.funcLitsIn(s.Post)
		}
		r.block(s.Body)
	case *ast.RangeStmt:
		r.exprs(s.X)
		r.block(s.Body)
		if r.isChan(s.X) {
			return append(out, r.rangeChan(s, label)...)
		}
		if r.isMap(s.X) {
			return append(out, r.rangeMap(s, label)...)
		}
	case *ast.SwitchStmt:
		r.noChanOps(s.Init)
		if s.Init != nil {
			r.funcLitsIn(s.Init)
		}
		r.exprs(s.Tag)
		for _, c := range s.Body.List {
			cc := c.(*ast.CaseClause)
			r.exprs(cc.List...)
			cc.Body = r.stmts(cc.Body, nil)
		}
	case *ast.TypeSwitchStmt:
		r.noChanOps(s.Init)
		if s.Init != nil {
			r.funcLitsIn(s.Init)
		}
		r.funcLitsIn(s.Assign)
		for _, c := range s.Body.List {
			cc := c.(*ast.CaseClause)
			cc.Body = r.stmts(cc.Body, nil)
		}
	case *ast.SelectStmt:
		return append(out, r.selectStmt(s, label)...)
	case *ast.GoStmt:
		if label != nil {
			failf(r.fset, s.Pos(), "labelled go statement")
		}
		return append(out, r.goStmt(s)...)
	case *ast.SendStmt:
		r.exprs(s.Chan, s.Value)
		r.needSimrt = true
		r.handled[s] = true
		c, v, h := r.name("c"), r.name("v"), r.name("h")
		pre := []ast.Stmt{define(c, s.Chan), define(v, s.Value), define(h, call(simrtSel("Pre"), ast.NewIdent(c.Name)))}
		s.Chan, s.Value = ast.NewIdent(c.Name), ast.NewIdent(v.Name)
		out = append(out, pre...)
		out = append(out, labeled(label, s), &ast.ExprStmt{X: call(simrtSel("Post"), ast.NewIdent(h.Name))})
		return out
	case *ast.ExprStmt:
		r.funcLitsIn(s.X)
		if u := recvOf(s.X); u != nil {
			return append(out, r.bracketRecv(s, u, label)...)
		}
		if c, ok := s.X.(*ast.CallExpr); ok && r.isBuiltin(c.Fun, "close") && len(c.Args) == 1 {
			r.needSimrt = true
			r.handled[c] = true
			cn := r.name("c")
			out = append(out, define(cn, c.Args[0]), &ast.ExprStmt{X: call(simrtSel("PreNB"), ast.NewIdent(cn.Name))})
			c.Args[0] = ast.NewIdent(cn.Name)
			return append(out, labeled(label, s))
		}
	case *ast.AssignStmt:
		for _, e := range s.Rhs {
			r.funcLitsIn(e)
		}
		for _, e := range s.Lhs {
			r.funcLitsIn(e)
		}
		if u := simpleRecv(s); u != nil {
			return append(out, r.bracketRecv(s, u, label)...)
		}
	case *ast.DeferStmt:
		r.funcLitsIn(s.Call)
		if r.isBuiltin(s.Call.Fun, "close") && len(s.Call.Args) == 1 {
			// defer close(ch) -> defer simrt.Close(ch): the operand is still evaluated at the
			// defer statement, the deferred call yields and closes
			r.needSimrt = true
			r.handled[s.Call] = true
			s.Call.Fun = simrtSel("Close")
		}
	case *ast.ReturnStmt:
		for _, e := range s.Results {
			r.funcLitsIn(e)
		}
	case *ast.DeclStmt:
		r.funcLitsIn(s.Decl)
	case *ast.IncDecStmt, *ast.BranchStmt, *ast.EmptyStmt:
	default:
		failf(r.fset, st.Pos(), "unhandled statement kind %T", st)
	}
	return append(out, labeled(label, st))
}

// noChanOps refuses channel operations in statement headers.
func (r *rewriter) noChanOps(sts ...ast.Stmt) {
	for _, st := range sts {
		if st == nil {
			continue
		}
		ast.Inspect(st, func(n ast.Node) bool {
			switch x := n.(type) {
			case *ast.FuncLit:
				return false
			case *ast.UnaryExpr:
				if x.Op == token.ARROW {
					failf(r.fset, x.Pos(), "channel receive in a for/switch header")
				}
			case *ast.SendStmt:
				failf(r.fset, x.Pos(), "channel send in a for/switch header")
			}
			return true
		})
	}
}

// ifStmt handles "if init; cond {} else ..." including a receive in init, which is
// hoisted into an enclosing block (same scoping).
func (r *rewriter) ifStmt(s *ast.IfStmt, label *ast.Ident) []ast.Stmt {
	r.exprs(s.Cond)
	r.block(s.Body)
	switch e := s.Else.(type) {
	case *ast.BlockStmt:
		r.block(e)
	case *ast.IfStmt:
		inner := r.ifStmt(e, nil)
		if len(inner) == 1 {
			s.Else = inner[0]
		} else {
			s.Else = &ast.BlockStmt{List: inner}
		}
	}
	if s.Init != nil {
		r.funcLitsIn(s.Init)
		if u := simpleRecv(s.Init); u != nil {
			init := s.Init
			s.Init = nil
			inner := r.bracketRecv(init, u, nil)
			inner = append(inner, labeled(label, s))
			return []ast.Stmt{&ast.BlockStmt{List: inner}}
		}
		r.noChanOps(s.Init)
	}
	return []ast.Stmt{labeled(label, s)}
}

// selectStmt replaces a select statement by a call to simrt.Select (which tries the clauses
// in an order drawn from the choice stream, so the runtime's random pick among several
// ready clauses becomes a recorded decision) and a switch over the chosen clause:
//
//	{ c0 := ch0; c1 := ch1; v1 := val
//	  i, rv, ok := simrt.Select(hasDefault, simrt.RecvCase(c0), simrt.SendCase(c1, v1))
//	  _, _ = rv, ok
//	  switch i { case 0: x := simrt.Elem(c0, rv); ...body  case 1: ...  default: ... } }
func (r *rewriter) selectStmt(s *ast.SelectStmt, label *ast.Ident) []ast.Stmt {
	r.needSimrt = true
	var pre []ast.Stmt
	var cases []ast.Expr
	hasDefault := false
	iName, rvName, okName := r.name("i"), r.name("rv"), r.name("ok")
	sw := &ast.SwitchStmt{Tag: ast.NewIdent(iName.Name), Body: &ast.BlockStmt{}}
	idx := 0
	for _, c := range s.Body.List {
		cc := c.(*ast.CommClause)
		var head []ast.Stmt
		clause := &ast.CaseClause{}
		switch comm := cc.Comm.(type) {
		case nil:
			hasDefault = true
			clause.List = nil // default
		case *ast.SendStmt:
			r.exprs(comm.Chan, comm.Value)
			cn, vn := r.name("c"), r.name("v")
			pre = append(pre, define(cn, comm.Chan), define(vn, comm.Value))
			cases = append(cases, call(simrtSel("SendCase"), ast.NewIdent(cn.Name), ast.NewIdent(vn.Name)))
			r.handled[comm] = true
			clause.List = []ast.Expr{intLit(idx)}
			idx++
		default:
			u := simpleRecv(comm)
			if u == nil {
				failf(r.fset, cc.Pos(), "unrecognised select communication")
				continue
			}
			r.exprs(u.X)
			cn := r.name("c")
			pre = append(pre, define(cn, u.X))
			cases = append(cases, call(simrtSel("RecvCase"), ast.NewIdent(cn.Name)))
			r.handled[u] = true
			if as, ok := comm.(*ast.AssignStmt); ok {
				elem := call(simrtSel("Elem"), ast.NewIdent(cn.Name), ast.NewIdent(rvName.Name))
				if !isBlank(as.Lhs[0]) {
					head = append(head, &ast.AssignStmt{Lhs: []ast.Expr{as.Lhs[0]}, Tok: as.Tok, Rhs: []ast.Expr{elem}})
				}
				if len(as.Lhs) == 2 && !isBlank(as.Lhs[1]) {
					head = append(head, &ast.AssignStmt{Lhs: []ast.Expr{as.Lhs[1]}, Tok: as.Tok, Rhs: []ast.Expr{ast.NewIdent(okName.Name)}})
				}
				if as.Tok == token.DEFINE {
					// a variable the body never reads would not compile as a separate definition
					for _, l := range as.Lhs {
						if !isBlank(l) {
							head = append(head, &ast.AssignStmt{Lhs: []ast.Expr{ast.NewIdent("_")}, Tok: token.ASSIGN, Rhs: []ast.Expr{ast.NewIdent(l.(*ast.Ident).Name)}})
						}
					}
				}
			}
			clause.List = []ast.Expr{intLit(idx)}
			idx++
		}
		clause.Body = append(head, r.stmts(cc.Body, nil)...)
		sw.Body.List = append(sw.Body.List, clause)
	}
	hd := "false"
	if hasDefault {
		hd = "true"
	}
	args := append([]ast.Expr{ast.NewIdent(hd)}, cases...)
	pre = append(pre,
		&ast.AssignStmt{Lhs: []ast.Expr{iName, rvName, okName}, Tok: token.DEFINE, Rhs: []ast.Expr{call(simrtSel("Select"), args...)}},
		&ast.AssignStmt{Lhs: []ast.Expr{ast.NewIdent("_"), ast.NewIdent("_")}, Tok: token.ASSIGN, Rhs: []ast.Expr{ast.NewIdent(rvName.Name), ast.NewIdent(okName.Name)}},
	)
	return []ast.Stmt{&ast.BlockStmt{List: append(pre, labeled(label, sw))}}
}

func (r *rewriter) goStmt(s *ast.GoStmt) []ast.Stmt {
	r.needSimrt = true
	c := s.Call
	var pre []ast.Stmt
	// function value
	switch f := unparen(c.Fun).(type) {
	case *ast.FuncLit:
		r.block(f.Body)
	default:
		bindIt := true
		switch id := f.(type) {
		case *ast.Ident:
			if _, ok := r.info.Uses[id].(*types.Func); ok {
				bindIt = false
			}
		case *ast.SelectorExpr:
			if x, ok := id.X.(*ast.Ident); ok {
				if _, ok := r.info.Uses[x].(*types.PkgName); ok {
					bindIt = false
				}
			}
		}
		r.funcLitsIn(c.Fun)
		if bindIt {
			fn := r.name("f")
			pre = append(pre, define(fn, c.Fun))
			c.Fun = ast.NewIdent(fn.Name)
		}
	}
	for i, a := range c.Args {
		r.funcLitsIn(a)
		if tv, ok := r.info.Types[a]; ok && (tv.Value != nil || tv.IsNil()) {
			continue
		}
		an := r.name("a")
		pre = append(pre, define(an, a))
		c.Args[i] = ast.NewIdent(an.Name)
	}
	body := &ast.BlockStmt{List: []ast.Stmt{&ast.ExprStmt{X: c}}}
	goCall := &ast.ExprStmt{X: call(simrtSel("Go"), &ast.FuncLit{Type: &ast.FuncType{Params: &ast.FieldList{}}, Body: body})}
	return []ast.Stmt{&ast.BlockStmt{List: append(pre, goCall)}}
}

func isBlank(e ast.Expr) bool {
	if e == nil {
		return true
	}
	id, ok := e.(*ast.Ident)
	return ok && id.Name == "_"
}

func (r *rewriter) rangeMap(s *ast.RangeStmt, label *ast.Ident) []ast.Stmt {
	r.needSimrt = true
	m := r.name("m")
	pre := []ast.Stmt{define(m, s.X)}
	keys := call(simrtSel("RangeKeys"), ast.NewIdent(m.Name), intLit(r.newSite(s.Pos(), "maprange")))
	s.X = keys
	origKey, origVal, tok := s.Key, s.Value, s.Tok
	s.Value = nil
	s.Key = nil
	if isBlank(origKey) && isBlank(origVal) {
		// for range keys
		s.Tok = token.ILLEGAL
		return append(pre, labeled(label, s))
	}
	var head []ast.Stmt
	var kIdent ast.Expr
	if tok == token.DEFINE && !isBlank(origKey) {
		kIdent = origKey
	} else {
		kIdent = r.name("k")
		if !isBlank(origKey) { // assignment form: k = key
			head = append(head, &ast.AssignStmt{Lhs: []ast.Expr{origKey}, Tok: token.ASSIGN, Rhs: []ast.Expr{kIdent}})
		}
	}
	s.Key = ast.NewIdent("_")
	s.Value = kIdent
	s.Tok = token.DEFINE
	ok := r.name("ok")
	ix := &ast.IndexExpr{X: ast.NewIdent(m.Name), Index: kIdent}
	if !isBlank(origVal) {
		if tok == token.DEFINE {
			head = append(head, &ast.AssignStmt{Lhs: []ast.Expr{origVal, ok}, Tok: token.DEFINE, Rhs: []ast.Expr{ix}})
		} else {
			tmp := r.name("v")
			head = append(head, &ast.AssignStmt{Lhs: []ast.Expr{tmp, ok}, Tok: token.DEFINE, Rhs: []ast.Expr{ix}})
			head = append(head, &ast.AssignStmt{Lhs: []ast.Expr{origVal}, Tok: token.ASSIGN, Rhs: []ast.Expr{ast.NewIdent(tmp.Name)}})
		}
	} else {
		head = append(head, &ast.AssignStmt{Lhs: []ast.Expr{ast.NewIdent("_"), ok}, Tok: token.DEFINE, Rhs: []ast.Expr{ix}})
	}
	// an entry removed by the body before it was reached is not produced (as in Go)
	skip := &ast.IfStmt{Cond: &ast.UnaryExpr{Op: token.NOT, X: ast.NewIdent(ok.Name)}, Body: &ast.BlockStmt{List: []ast.Stmt{&ast.BranchStmt{Tok: token.CONTINUE}}}}
	if tok != token.DEFINE || isBlank(origVal) {
		// keep declared-and-unused errors away for the value-less forms
		head = append(head, skip)
	} else {
		head = append(head, skip)
	}
	s.Body.List = append(head, s.Body.List...)
	return append(pre, labeled(label, s))
}

// rangeChan rewrites "for x := range ch { body }" into a loop around a bracketed receive:
//
//	c := ch
//	for { h := simrt.Pre(c); x, ok := <-c; simrt.Post(h); if !ok { break }; body }
func (r *rewriter) rangeChan(s *ast.RangeStmt, label *ast.Ident) []ast.Stmt {
	r.needSimrt = true
	if s.Value != nil {
		failf(r.fset, s.Pos(), "range over channel with two variables")
	}
	c, h, ok := r.name("c"), r.name("h"), r.name("ok")
	recv := &ast.UnaryExpr{Op: token.ARROW, X: ast.NewIdent(c.Name)}
	r.handled[recv] = true
	var lhs ast.Expr = ast.NewIdent("_")
	tok := token.DEFINE
	var pre []ast.Stmt
	if s.Key != nil && !isBlank(s.Key) {
		lhs = s.Key
		if s.Tok == token.ASSIGN {
			tok = token.ASSIGN
			pre = append(pre, &ast.DeclStmt{Decl: &ast.GenDecl{Tok: token.VAR, Specs: []ast.Spec{&ast.ValueSpec{Names: []*ast.Ident{ast.NewIdent(ok.Name)}, Type: ast.NewIdent("bool")}}}})
		}
	}
	body := []ast.Stmt{define(h, call(simrtSel("Pre"), ast.NewIdent(c.Name)))}
	body = append(body, pre...)
	body = append(body,
		&ast.AssignStmt{Lhs: []ast.Expr{lhs, ast.NewIdent(ok.Name)}, Tok: tok, Rhs: []ast.Expr{recv}},
		&ast.ExprStmt{X: call(simrtSel("Post"), ast.NewIdent(h.Name))},
		&ast.IfStmt{Cond: &ast.UnaryExpr{Op: token.NOT, X: ast.NewIdent(ok.Name)}, Body: &ast.BlockStmt{List: []ast.Stmt{&ast.BranchStmt{Tok: token.BREAK}}}},
	)
	body = append(body, s.Body.List...)
	loop := &ast.ForStmt{Body: &ast.BlockStmt{List: body}}
	return []ast.Stmt{define(c, s.X), labeled(label, loop)}
}

// finalCheck: no unbracketed channel operation or go statement may be left.
func (r *rewriter) finalCheck() {
	ast.Inspect(r.file, func(n ast.Node) bool {
		switch x := n.(type) {
		case *ast.GoStmt:
			failf(r.fset, x.Pos(), "go statement in an unhandled position")
		case *ast.UnaryExpr:
			if x.Op == token.ARROW && !r.handled[x] {
				failf(r.fset, x.Pos(), "channel receive in an unhandled position")
			}
		case *ast.SendStmt:
			if !r.handled[x] {
				failf(r.fset, x.Pos(), "channel send in an unhandled position")
			}
		case *ast.CallExpr:
			if id, ok := x.Fun.(*ast.Ident); ok && id.Name == "close" && !r.handled[x] {
				if _, isB := r.info.Uses[id].(*types.Builtin); isB {
					failf(r.fset, x.Pos(), "close(ch) in an unhandled position")
				}
			}
		}
		return true
	})
}
