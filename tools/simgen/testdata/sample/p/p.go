// Package p uses every construct the instrumenter rewrites; the expected results are
// schedule-independent except where a comment says otherwise.
package p

import (
	"sync"
	"time"
)

type Counter struct {
	mu   sync.Mutex
	n    int
	list []int
}

// Add is a locked read-modify-write: never loses an update.
func (c *Counter) Add(d int) {
	c.mu.Lock()
	c.n += d
	c.list = append(c.list, d)
	c.mu.Unlock()
}

// AddRacy is the same without the lock: updates can be lost under some schedules.
func (c *Counter) AddRacy(d int) {
	c.n += d
	c.list = append(c.list, d)
}

func (c *Counter) N() int {
	c.mu.Lock()
	defer c.mu.Unlock()
	return c.n
}

func (c *Counter) Len() int {
	c.mu.Lock()
	defer c.mu.Unlock()
	return len(c.list)
}

// Pipeline: producers -> channel -> one merger using range over the channel; the producer
// side closes with a deferred close. Returns the sum of everything sent.
func Pipeline(producers, each int) int {
	ch := make(chan int, 1)
	var wg sync.WaitGroup
	wg.Add(producers)
	for p := 0; p < producers; p++ {
		go func(p int) {
			defer wg.Done()
			for i := 1; i <= each; i++ {
				ch <- p*100 + i
			}
		}(p)
	}
	go func() {
		defer close(ch)
		wg.Wait()
	}()
	sum := 0
	for v := range ch {
		sum += v
	}
	return sum
}

// SelectBoth drains two channels with select until both are closed.
func SelectBoth(a, b []int) (sa, sb int) {
	ca, cb := make(chan int), make(chan int)
	go func() {
		for _, v := range a {
			ca <- v
		}
		close(ca)
	}()
	go func() {
		for _, v := range b {
			cb <- v
		}
		close(cb)
	}()
	for ca != nil || cb != nil {
		select {
		case v, ok := <-ca:
			if !ok {
				ca = nil
				continue
			}
			sa += v
		case v, ok := <-cb:
			if !ok {
				cb = nil
				continue
			}
			sb += v
		}
	}
	return
}

// Timed sleeps on the fake clock; returns the elapsed simulated time.
func Timed(d time.Duration) time.Duration {
	t0 := time.Now()
	time.Sleep(d)
	return time.Since(t0)
}

// MapWalk sums a map through range (seeded order) and counts with a captured variable.
func MapWalk(m map[string]int) (sum, count int) {
	var mu sync.Mutex
	var wg sync.WaitGroup
	for k, v := range m {
		_ = k
		wg.Add(1)
		go func(v int) {
			defer wg.Done()
			mu.Lock()
			sum += v
			count++
			mu.Unlock()
		}(v)
	}
	wg.Wait()
	return
}
