package run

import (
	"math/rand"
	"testing"
	"time"

	"sample/p"
	"simrt"
)

type rndChooser struct{ r *rand.Rand }

func (c *rndChooser) Pick(cur int, runnable []int, sites []int) int {
	return runnable[c.r.Intn(len(runnable))]
}
func (c *rndChooser) Draw(n int) int { return c.r.Intn(n) }

func sim(t *testing.T, seed int64, arm bool, f func()) *simrt.Result {
	cfg := simrt.Config{Chooser: &rndChooser{rand.New(rand.NewSource(seed))}, MaxSteps: 100000, FairSteps: 100000}
	if arm {
		cfg.Armed = func(int) bool { return true }
	}
	res := simrt.Run(t, cfg, f)
	if res.HarnessErr != "" || res.Fatal != "" || len(res.Panics) > 0 || res.Deadlock || res.Livelock {
		t.Fatalf("seed %d: harness=%q fatal=%q panics=%v deadlock=%v livelock=%v blocked=%v", seed, res.HarnessErr, res.Fatal, res.Panics, res.Deadlock, res.Livelock, res.Blocked)
	}
	return res
}

func TestInstrumentedSample(t *testing.T) {
	lostN, lostLen := 0, 0
	for seed := int64(1); seed <= 300; seed++ {
		sim(t, seed, true, func() {
			if got := p.Pipeline(3, 4); got != (1+2+3+4)*3+4*(0+100+200) {
				t.Errorf("seed %d: Pipeline = %d", seed, got)
			}
			sa, sb := p.SelectBoth([]int{1, 2, 3}, []int{10, 20})
			if sa != 6 || sb != 30 {
				t.Errorf("seed %d: SelectBoth = %d, %d", seed, sa, sb)
			}
			if d := p.Timed(90 * time.Second); d != 90*time.Second {
				t.Errorf("seed %d: Timed = %v", seed, d)
			}
			s, c := p.MapWalk(map[string]int{"a": 1, "b": 2, "c": 3, "d": 4})
			if s != 10 || c != 4 {
				t.Errorf("seed %d: MapWalk = %d, %d", seed, s, c)
			}
			// locked read-modify-write never loses an update, whatever the schedule
			var ctr p.Counter
			var wg simrt.WaitGroup
			wg.Add(3)
			for i := 0; i < 3; i++ {
				simrt.Go(func() { defer wg.Done(); ctr.Add(1); ctr.Add(1) })
			}
			wg.Wait()
			if ctr.N() != 6 || ctr.Len() != 6 {
				t.Errorf("seed %d: locked counter = %d / %d", seed, ctr.N(), ctr.Len())
			}
			// the unlocked one must lose updates under SOME schedule: the load/store split works
			var racy p.Counter
			wg.Add(3)
			for i := 0; i < 3; i++ {
				simrt.Go(func() { defer wg.Done(); racy.AddRacy(1); racy.AddRacy(1) })
			}
			wg.Wait()
			if racy.N() < 6 {
				lostN++
			}
			if racy.Len() < 6 {
				lostLen++
			}
		})
	}
	if lostN == 0 || lostLen == 0 {
		t.Errorf("the unlocked read-modify-write never lost an update in 300 schedules (n: %d, append: %d): the load/store split is not effective", lostN, lostLen)
	}
	t.Logf("unlocked counter lost an update in %d (n) / %d (append) of 300 schedules", lostN, lostLen)
}
