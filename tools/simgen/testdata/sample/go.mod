module sample

go 1.21
