package simrt

import (
	"fmt"
	"reflect"
	"sort"
	"strconv"
	"unsafe"
)

// mapMeta is the happens-before bookkeeping of one map value.
type mapMeta struct {
	ref    any // keeps the map alive so that its address is not reused during the run
	wTask  int
	wClock uint32
	wSite  int
	reads  map[int]readRec
}

type readRec struct {
	clock uint32
	site  int
}

func mapPtr[M ~map[K]V, K comparable, V any](m M) uintptr {
	return uintptr(*(*unsafe.Pointer)(unsafe.Pointer(&m)))
}

// MR records a read of map m at site and returns m.
func MR[M ~map[K]V, K comparable, V any](m M, site int) M {
	s := S
	if s == nil || s.aborted || s.cfg.NoRace || m == nil {
		return m
	}
	s.mapAccess(mapPtr[M, K, V](m), m, site, false)
	return m
}

// MW records a write to map m at site and returns m.
func MW[M ~map[K]V, K comparable, V any](m M, site int) M {
	s := S
	if s == nil || s.aborted || s.cfg.NoRace || m == nil {
		return m
	}
	s.mapAccess(mapPtr[M, K, V](m), m, site, true)
	return m
}

func (s *Sim) mapAccess(p uintptr, ref any, site int, write bool) {
	t := s.cur
	if t == nil || t.state != stRunning {
		return
	}
	mm := s.maps[p]
	if mm == nil {
		mm = &mapMeta{ref: ref, reads: map[int]readRec{}}
		s.maps[p] = mm
	}
	// ordered after the last write?
	if mm.wTask != 0 && mm.wTask != t.ID && mm.wClock > t.vc.get(mm.wTask) {
		kind := "write-read"
		if write {
			kind = "write-write"
		}
		s.race(kind, mm.wSite, mm.wTask, site, t.ID, ref)
	}
	if write {
		for u, r := range mm.reads {
			if u != t.ID && r.clock > t.vc.get(u) {
				s.race("read-write", r.site, u, site, t.ID, ref)
			}
		}
		mm.wTask, mm.wClock, mm.wSite = t.ID, t.vc.get(t.ID), site
		for u := range mm.reads {
			delete(mm.reads, u)
		}
	} else {
		mm.reads[t.ID] = readRec{t.vc.get(t.ID), site}
	}
}

func (s *Sim) race(kind string, site1, task1, site2, task2 int, ref any) {
	a, b := site1, site2
	if a > b {
		a, b = b, a
	}
	if s.raceSeen[[2]int{a, b}] {
		return
	}
	s.raceSeen[[2]int{a, b}] = true
	s.res.Races = append(s.res.Races, Race{Kind: kind, Site1: site1, Task1: task1, Site2: site2, Task2: task2, MapLabel: fmt.Sprintf("%T", ref)})
}

// RangeKeys returns the keys of m in an order chosen by the choice stream: sorted
// canonically, then permuted.  Iterating a map in any order is legal Go; drawing the
// order from the choice stream makes it replayable and explores different orders.
func RangeKeys[M ~map[K]V, K comparable, V any](m M, site int) []K {
	if len(m) == 0 {
		return nil
	}
	MR[M, K, V](m, site)
	keys := make([]K, 0, len(m))
	for k := range m {
		keys = append(keys, k)
	}
	sortKeys(keys)
	if S != nil || SoloDraw != nil {
		for i := len(keys) - 1; i > 0; i-- {
			j := Draw(i + 1)
			keys[i], keys[j] = keys[j], keys[i]
		}
	}
	return keys
}

func sortKeys[K comparable](keys []K) {
	if len(keys) < 2 {
		return
	}
	switch ks := any(keys).(type) {
	case []string:
		sort.Strings(ks)
		return
	case []int:
		sort.Ints(ks)
		return
	}
	strs := make([]string, len(keys))
	for i, k := range keys {
		strs[i] = keyString(any(k))
	}
	idx := make([]int, len(keys))
	for i := range idx {
		idx[i] = i
	}
	sort.SliceStable(idx, func(a, b int) bool { return strs[idx[a]] < strs[idx[b]] })
	out := make([]K, len(keys))
	for i, j := range idx {
		out[i] = keys[j]
	}
	copy(keys, out)
}

// PtrRank gives pointers that a harness uses as map keys a run-independent order (an address
// has none). Set once, before any simulation.
var PtrRank = map[uintptr]int{}

func keyString(k any) string {
	switch v := k.(type) {
	case string:
		return "s|" + v
	case int:
		return "i|" + strconv.Itoa(v)
	case int64:
		return "i|" + strconv.FormatInt(v, 10)
	case bool:
		return "b|" + strconv.FormatBool(v)
	case fmt.Stringer:
		rv := reflect.ValueOf(k)
		if rv.Kind() == reflect.Ptr {
			HarnessError(fmt.Sprintf("map range over pointer-typed key %T has no run-independent order", k))
		}
		return "S|" + v.String()
	}
	rv := reflect.ValueOf(k)
	if rv.Kind() == reflect.Ptr {
		if rank, ok := PtrRank[rv.Pointer()]; ok {
			return "p|" + strconv.Itoa(1000000+rank)
		}
	}
	switch rv.Kind() {
	case reflect.Ptr, reflect.UnsafePointer, reflect.Chan, reflect.Func:
		HarnessError(fmt.Sprintf("map range over key type %T has no run-independent order", k))
		return fmt.Sprintf("p|%T", k)
	case reflect.String:
		return "s|" + rv.String()
	case reflect.Int, reflect.Int8, reflect.Int16, reflect.Int32, reflect.Int64:
		return "i|" + strconv.FormatInt(rv.Int(), 10)
	case reflect.Uint, reflect.Uint8, reflect.Uint16, reflect.Uint32, reflect.Uint64:
		return "u|" + strconv.FormatUint(rv.Uint(), 10)
	}
	return fmt.Sprintf("%T|%v", k, k)
}
