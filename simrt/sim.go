// Package simrt is the deterministic simulation runtime used by the /verif checks.
//
// Instrumented goatcore code (produced by tools/simgen) calls into this package
// instead of package sync, the go statement, runtime.Gosched, time.Sleep and bare
// channel operations.  Inside a simulation exactly one task (a real goroutine) runs at
// a time; at every synchronisation operation the running task hands the baton back to
// the controller, which asks a Chooser (seeded PRNG or recorded replay) whom to run
// next.  The controller runs inside a testing/synctest bubble, so that it can tell when
// every goroutine is durably blocked and so that time is a fake clock which only
// advances when nothing can run.
//
// Outside a simulation (S == nil) the primitives work in "solo" mode: one goroutine,
// no scheduling, blocking on a held lock is reported as a panic (self-deadlock).
package simrt

import (
	"sync/atomic"
	"fmt"
	"os"
	"reflect"
	"runtime"
	"runtime/debug"
	"sort"
	"strings"
	"sync"
	"testing"
	"testing/synctest"
	"time"
)

// Chooser decides every nondeterministic choice of a run.
type Chooser interface {
	// Pick returns the id of the task to run next. cur is the id of the task that just
	// yielded (0 if none); runnable is sorted ascending and non-empty.
	Pick(cur int, runnable []int, sites []int) int
	// Draw returns a value in [0,n).
	Draw(n int) int
}

// Config configures one simulated run.
type Config struct {
	Chooser   Chooser
	Stop      *atomic.Bool  // optional wall-clock guard set from outside the bubble: once true (and past MaxSteps) the run ends as "budget exhausted"
	MaxSteps  int           // random-schedule step budget; afterwards a fair round-robin tail
	FairSteps int           // length of the fair tail; run not finished then => Livelock
	Horizon   time.Duration // idle time after which blocked tasks are declared deadlocked
	Armed     func(site int) bool
	KeepLog   bool // keep the full event log (determinism self-test, replay files)
	NoRace    bool // disable the happens-before map probe
}

type taskState int

const (
	stRunnable taskState = iota
	stRunning
	stBlocked  // inside a simulated primitive
	stExternal // inside a bracketed real blocking operation
	stDone
)

func (s taskState) String() string {
	return [...]string{"runnable", "running", "blocked", "external", "done"}[s]
}

const (
	whyStart = iota
	whyYield
	whyGosched
	whyLock
	whyUnlock
	whyChan
	whyPost
	whySite
	whyWake
)

var whyNames = [...]string{"start", "yield", "gosched", "lock", "unlock", "chan", "post", "site", "wake"}

// Task is one simulated goroutine.
type Task struct {
	ID        int
	Name      string
	wake      chan struct{}
	state     taskState
	why       int
	site      int
	spins     int
	spinEpoch int
	blockedOn string
	vc        vclock
	sleeping  bool
	countedBlock bool // this stay in external state was already counted as a real block
}

// Event is one entry of the run's event log.
type Event struct {
	Step int `json:"step"`
	Task int `json:"task"`
	Site int `json:"site"`
	Why  int `json:"why"`
}

// PanicInfo records a panic that ended a task.
type PanicInfo struct {
	Task  int    `json:"task"`
	Name  string `json:"name"`
	Value string `json:"value"`
	Stack string `json:"stack"`
	Site  int    `json:"site"`
}

// Race is a pair of map accesses not ordered by happens-before.
type Race struct {
	Kind     string `json:"kind"` // "read-write", "write-read", "write-write"
	Site1    int    `json:"site1"`
	Task1    int    `json:"task1"`
	Site2    int    `json:"site2"`
	Task2    int    `json:"task2"`
	MapLabel string `json:"map"`
}

// Result is what a run produced.
type Result struct {
	Steps      int
	Decisions  int // steps at which more than one task was runnable
	Switches   int
	Tasks      int
	Panics     []PanicInfo
	Fatal      string // process-fatal condition such as unlock of unlocked mutex
	Deadlock   bool
	Livelock   bool
	MainDone   bool // task 1 returned (a deadlock with MainDone is a goroutine leak, not a hang of the caller)
	MainActive bool // at a step-budget stop: task 1 was runnable (still making progress), not blocked
	StepsSinceProgress int // at a step-budget stop: steps since the last wake / post / spawn / task end
	Blocked    []string // description of tasks that never finished
	Races      []Race
	HarnessErr string // trouble in the harness itself (exit 2, never a violation)
	LogHash    uint64
	SchedHash  uint64
	Log        []Event
	SimTime    time.Duration // simulated time until task 1 returned (until the end of the run if it never did)
	ChanBlocks int           // times a task was found really blocked in a channel operation (not a sleep)
	Pairs      map[[2]int]struct{} // (site->site) context switches observed
	Idles      int
	TimerJumps int
}

// Sim is one running simulation.
type Sim struct {
	cfg      Config
	mu       sync.Mutex
	tasks    []*Task
	cur      *Task
	notify   chan struct{}
	aborted  bool
	res      *Result
	start    time.Time
	maps     map[uintptr]*mapMeta
	chans    map[any]*vclock
	raceSeen map[[2]int]bool
	rr       int
	fair     bool
	idleQ    time.Duration
	lastSite int
	mainDoneAt time.Duration
	lastProgressStep int
	epoch    int  // incremented on every progress event (wake, post, spawn, done)
	progress bool // a progress event happened since the last idle
}

// S is the running simulation, nil outside one.  Only one simulation runs per process
// at a time.
var S *Sim

// SoloDraw, when set, serves Draw calls made outside a simulation (sequential checks
// that still want seeded map iteration order).
var SoloDraw func(n int) int

type abortSentinel struct{}

// Run executes main as task 1 of a fresh simulation and returns when every task has
// finished, the run deadlocked, or the budgets ran out.
func Run(t *testing.T, cfg Config, main func()) (res *Result) {
	if cfg.MaxSteps == 0 {
		cfg.MaxSteps = 200000
	}
	if cfg.FairSteps == 0 {
		cfg.FairSteps = 200000
	}
	if cfg.Horizon == 0 {
		cfg.Horizon = 24 * time.Hour
	}
	res = &Result{Pairs: map[[2]int]struct{}{}}
	func() {
		defer func() {
			// end-of-bubble "blocked goroutines remain" panic of synctest: the run is over
			// anyway, what was blocked is already described in res.Blocked.
			if r := recover(); r != nil {
				msg := fmt.Sprint(r)
				if !strings.Contains(msg, "deadlock") && !strings.Contains(msg, "blocked goroutines") {
					res.HarnessErr = "panic in simulator: " + msg + "\n" + string(debug.Stack())
				}
			}
			S = nil
		}()
		synctest.Test(t, func(t *testing.T) {
			s := &Sim{
				cfg:      cfg,
				notify:   make(chan struct{}, 1),
				res:      res,
				start:    time.Now(),
				maps:     map[uintptr]*mapMeta{},
				chans:    map[any]*vclock{},
				raceSeen: map[[2]int]bool{},
				idleQ:    time.Millisecond,
			}
			S = s
			s.spawn(nil, "main", main)
			s.controller()
			res.SimTime = time.Since(s.start)
			if s.mainDoneAt > 0 || s.tasks[0].state == stDone {
				res.SimTime = s.mainDoneAt
			}
			res.Tasks = len(s.tasks)
			res.MainDone = s.tasks[0].state == stDone
			res.MainActive = s.tasks[0].state == stRunnable || s.tasks[0].state == stRunning
			s.cleanup()
			S = nil
		})
	}()
	return res
}

func (s *Sim) ping() {
	select {
	case s.notify <- struct{}{}:
	default:
	}
}

func (s *Sim) spawn(parent *Task, name string, f func()) *Task {
	t := &Task{ID: len(s.tasks) + 1, Name: name, wake: make(chan struct{}), state: stRunnable, why: whyStart}
	if parent != nil {
		t.vc = parent.vc.clone()
		parent.vc.tick(parent.ID)
		t.site = parent.site
	}
	t.vc.tick(t.ID)
	s.mu.Lock()
	s.tasks = append(s.tasks, t)
	s.epoch++
	s.progress = true
	s.mu.Unlock()
	go func() {
		<-t.wake
		if s.aborted {
			return
		}
		defer func() {
			if r := recover(); r != nil {
				if _, ok := r.(abortSentinel); !ok {
					// format first: the value's Error/String method may be instrumented code
					// that parks, which needs s.mu
					info := PanicInfo{Task: t.ID, Name: t.Name, Value: safeSprint(r), Stack: trimStack(string(debug.Stack())), Site: t.site}
					s.mu.Lock()
					s.res.Panics = append(s.res.Panics, info)
					s.mu.Unlock()
				}
			}
			s.mu.Lock()
			t.state = stDone
			if t.ID == 1 {
				s.mainDoneAt = time.Since(s.start)
			}
			s.epoch++
			s.progress = true
			s.mu.Unlock()
			s.ping()
		}()
		f()
	}()
	return t
}

func safeSprint(v interface{}) (out string) {
	defer func() {
		if p := recover(); p != nil {
			out = fmt.Sprintf("%T (its formatting panicked)", v)
		}
	}()
	return fmt.Sprint(v)
}

func trimStack(st string) string {
	lines := strings.Split(st, "\n")
	if len(lines) > 60 {
		lines = lines[:60]
	}
	return strings.Join(lines, "\n")
}

func (s *Sim) controller() {
	res := s.res
	var h fnv64 = fnvInit
	var sh fnv64 = fnvInit
	lastTask := 0
	for {
		synctest.Wait()
		s.mu.Lock()
		if s.cur != nil && s.cur.state == stRunning {
			res.HarnessErr = fmt.Sprintf("task %d (%s) is blocked at an operation the simulator does not control (last site %d)", s.cur.ID, s.cur.Name, s.cur.site)
			s.mu.Unlock()
			return
		}
		var runnable []int
		var sites []int
		alive := 0
		allSpin := true
		for _, t := range s.tasks {
			if t.state != stDone {
				alive++
			}
			if t.state == stExternal && !t.sleeping && !t.countedBlock {
				t.countedBlock = true
				res.ChanBlocks++
			}
			if t.state == stRunnable {
				runnable = append(runnable, t.ID)
				sites = append(sites, t.site)
				if !(t.spinEpoch == s.epoch && t.spins >= 2) {
					allSpin = false
				}
			}
		}
		cur := s.cur
		fatal := res.Fatal != "" || res.HarnessErr != ""
		if s.progress {
			s.progress = false
			s.idleQ = time.Millisecond
			s.lastProgressStep = res.Steps
		}
		s.mu.Unlock()
		if alive == 0 || fatal {
			break
		}
		if len(runnable) == 0 || allSpin {
			// nothing can make progress by itself: let simulated time advance
			q := s.cfg.Horizon
			if len(runnable) > 0 {
				q = s.idleQ
				if s.idleQ < time.Hour {
					s.idleQ *= 2
				} else {
					res.Livelock = true
					s.describeBlocked("only spinning tasks remain")
					break
				}
				s.mu.Lock()
				s.epoch++
				s.mu.Unlock()
			}
			res.Idles++
			tm := time.NewTimer(q)
			select {
			case <-s.notify:
				tm.Stop()
				res.TimerJumps++
			case <-tm.C:
				if len(runnable) == 0 {
					res.Deadlock = true
					s.describeBlocked("no task can run and no timer is pending")
					goto out
				}
			}
			continue
		}
		res.Steps++
		if res.Steps > s.cfg.MaxSteps {
			s.fair = true
		}
		if res.Steps > s.cfg.MaxSteps+s.cfg.FairSteps || (s.cfg.Stop != nil && res.Steps > s.cfg.MaxSteps && s.cfg.Stop.Load()) {
			res.Livelock = true
			res.StepsSinceProgress = res.Steps - s.lastProgressStep
			s.describeBlocked("step budget and fair round-robin tail exhausted")
			break
		}
		curID := 0
		if cur != nil && cur.state == stRunnable {
			curID = cur.ID
		}
		var pick int
		if s.fair {
			// strict round robin over task ids
			pick = runnable[0]
			for _, id := range runnable {
				if id > s.rr {
					pick = id
					break
				}
			}
			s.rr = pick
		} else if len(runnable) == 1 {
			pick = runnable[0]
		} else {
			res.Decisions++
			pick = s.cfg.Chooser.Pick(curID, runnable, sites)
			ok := false
			for _, id := range runnable {
				if id == pick {
					ok = true
				}
			}
			if !ok {
				res.HarnessErr = fmt.Sprintf("chooser picked task %d which is not runnable %v", pick, runnable)
				break
			}
		}
		t := s.tasks[pick-1]
		if lastTask != 0 && lastTask != pick {
			res.Switches++
			if len(res.Pairs) < 1<<16 {
				res.Pairs[[2]int{s.lastSite, t.site}] = struct{}{}
			}
		}
		lastTask = pick
		s.lastSite = t.site
		h = h.add(uint64(res.Steps)).add(uint64(pick)).add(uint64(t.site)).add(uint64(t.why))
		if len(runnable) > 1 {
			sh = sh.add(uint64(pick)).add(uint64(t.site))
		}
		if s.cfg.KeepLog {
			res.Log = append(res.Log, Event{res.Steps, pick, t.site, t.why})
		}
		s.mu.Lock()
		t.state = stRunning
		s.cur = t
		s.mu.Unlock()
		t.wake <- struct{}{}
	}
out:
	res.LogHash = uint64(h)
	res.SchedHash = uint64(sh)
}

func (s *Sim) describeBlocked(reason string) {
	s.mu.Lock()
	defer s.mu.Unlock()
	s.res.Blocked = append(s.res.Blocked, reason)
	for _, t := range s.tasks {
		if t.state == stDone {
			continue
		}
		s.res.Blocked = append(s.res.Blocked, fmt.Sprintf("task %d (%s) %s at site %d %s", t.ID, t.Name, t.state, t.site, t.blockedOn))
	}
}

// cleanup releases every task that is still parked inside the simulator so that its
// goroutine exits (runtime.Goexit; simrt calls made by deferred functions are no-ops once
// the simulation is aborted).  Tasks blocked in real channel operations cannot be
// released and are left behind.
func (s *Sim) cleanup() {
	s.mu.Lock()
	s.aborted = true
	var parked []*Task
	left := 0
	for _, t := range s.tasks {
		switch t.state {
		case stRunnable, stBlocked:
			parked = append(parked, t)
		case stExternal, stRunning:
			left++
		}
	}
	s.mu.Unlock()
	_ = left
	for _, t := range parked {
		t.wake <- struct{}{}
	}
	synctest.Wait()
}

// ---------------------------------------------------------------------------------
// baton passing

func (s *Sim) park(t *Task, why int) {
	s.mu.Lock()
	t.state = stRunnable
	if why == whyGosched {
		if t.spinEpoch != s.epoch {
			t.spinEpoch = s.epoch
			t.spins = 0
		}
		t.spins++
	}
	t.why = why
	s.mu.Unlock()
	<-t.wake
	if s.aborted {
		panic(abortSentinel{})
	}
}

func (s *Sim) block(t *Task, on string) {
	s.mu.Lock()
	t.state = stBlocked
	t.blockedOn = on
	s.mu.Unlock()
	<-t.wake
	if s.aborted {
		panic(abortSentinel{})
	}
	t.blockedOn = ""
}

func (s *Sim) makeRunnable(t *Task) {
	s.mu.Lock()
	if t.state == stBlocked {
		t.state = stRunnable
		t.why = whyWake
		s.epoch++
		s.progress = true
	}
	s.mu.Unlock()
}

func (s *Sim) fatal(msg string) {
	s.mu.Lock()
	if s.res.Fatal == "" {
		s.res.Fatal = msg
	}
	s.mu.Unlock()
	// the process would be dead: stop this task for good
	if s.cur != nil {
		t := s.cur
		s.mu.Lock()
		t.state = stBlocked
		t.blockedOn = "(fatal) " + msg
		s.mu.Unlock()
		<-t.wake
		panic(abortSentinel{})
	}
}

func active() *Sim {
	s := S
	if s == nil || s.aborted {
		return nil
	}
	return s
}

// Yield is a scheduling point.
func Yield() {
	if s := active(); s != nil {
		s.park(s.cur, whyYield)
	}
}

// Gosched replaces runtime.Gosched: a scheduling point that marks the task as spinning.
// When every runnable task is spinning the controller lets simulated time advance.
func Gosched() {
	if s := active(); s != nil {
		s.park(s.cur, whyGosched)
		return
	}
	runtime.Gosched()
}

// P is a statement-level site marker and optional preemption point.
func P(site int) {
	s := S
	if s == nil || s.aborted {
		return
	}
	t := s.cur
	t.site = site
	if s.cfg.Armed != nil && s.cfg.Armed(site) {
		s.park(t, whySite)
	}
}

// Go replaces the go statement.
func Go(f func()) {
	s := active()
	if s == nil {
		if S != nil { // aborted simulation: do not start anything new
			return
		}
		panic("simrt.Go called outside a simulation")
	}
	s.spawn(s.cur, "", f)
	s.park(s.cur, whyYield)
}

// GoNamed starts a named task (harness use).
func GoNamed(name string, f func()) *Task {
	s := active()
	if s == nil {
		panic("simrt.GoNamed called outside a simulation")
	}
	t := s.spawn(s.cur, name, f)
	s.park(s.cur, whyYield)
	return t
}

// Close replaces a deferred close(ch): scheduling point, then the close.
func Close(ch any) {
	PreNB(ch)
	reflect.ValueOf(ch).Close()
}

// CurrentTask returns the id of the running task (0 outside a simulation).
func CurrentTask() int {
	if s := active(); s != nil && s.cur != nil {
		return s.cur.ID
	}
	return 0
}

// Step returns the number of scheduling steps taken so far: the simulator's global
// event sequence number used to stamp operation invoke/return.
func Step() int {
	if s := active(); s != nil {
		return s.res.Steps
	}
	return 0
}

// Now returns simulated time since the start of the run.
func Now() time.Duration {
	if s := active(); s != nil {
		return time.Since(s.start)
	}
	return 0
}

// Draw takes a value in [0,n) from the run's choice stream.
func Draw(n int) int {
	if n <= 1 {
		return 0
	}
	if s := active(); s != nil {
		v := s.cfg.Chooser.Draw(n)
		if v < 0 || v >= n {
			v = 0
		}
		return v
	}
	if SoloDraw != nil {
		v := SoloDraw(n)
		if v < 0 || v >= n {
			v = 0
		}
		return v
	}
	return 0
}

// Handle is returned by Pre and consumed by Post.
type Handle struct {
	t   *Task
	chs []any
	nb  bool
}

// Pre brackets a real, possibly blocking, operation (channel send/receive, blocking
// select, sleep): a scheduling point, then the task is marked as being outside the
// simulator's control until Post.
func Pre(chs ...any) *Handle {
	s := active()
	if s == nil {
		return nil
	}
	t := s.cur
	s.park(t, whyChan)
	s.chanRelease(t, chs)
	s.mu.Lock()
	t.state = stExternal
	s.mu.Unlock()
	return &Handle{t: t, chs: chs}
}

// Post ends a bracket: the task parks before it executes anything else.
func Post(h *Handle) {
	if h == nil {
		return
	}
	s := S
	if s == nil {
		return
	}
	t := h.t
	if h.nb {
		s.chanAcquire(t, h.chs)
		return
	}
	s.mu.Lock()
	aborted := s.aborted
	if !aborted {
		t.state = stRunnable
		t.countedBlock = false
		t.why = whyPost
		s.epoch++
		s.progress = true
	}
	s.mu.Unlock()
	if aborted {
		panic(abortSentinel{})
	}
	s.ping()
	<-t.wake
	if s.aborted {
		panic(abortSentinel{})
	}
	s.chanAcquire(t, h.chs)
}

// PreNB brackets a channel operation that cannot block (select with default, close,
// len): a scheduling point only; the task keeps the baton.
func PreNB(chs ...any) *Handle {
	s := active()
	if s == nil {
		return nil
	}
	t := s.cur
	s.park(t, whyChan)
	s.chanRelease(t, chs)
	return &Handle{t: t, chs: chs, nb: true}
}

// After yields after its argument has been evaluated and returns it (len/cap of a
// channel: the value may be stale by the time it is used, as in real Go).
func After(v int) int {
	if s := active(); s != nil {
		s.park(s.cur, whyChan)
	}
	return v
}

// Sleep replaces time.Sleep.
func Sleep(d time.Duration) {
	s := active()
	if s == nil {
		if S == nil {
			time.Sleep(d)
		}
		return
	}
	t := s.cur
	s.park(t, whyYield)
	s.mu.Lock()
	t.state = stExternal
	t.sleeping = true
	s.mu.Unlock()
	time.Sleep(d)
	s.mu.Lock()
	t.sleeping = false
	s.mu.Unlock()
	Post(&Handle{t: t})
}

// Fatal records a harness-level failure (never a property violation).
func HarnessError(msg string) {
	if s := S; s != nil {
		s.mu.Lock()
		if s.res.HarnessErr == "" {
			s.res.HarnessErr = msg
		}
		s.mu.Unlock()
		return
	}
	panic("simrt harness error: " + msg)
}

// ---------------------------------------------------------------------------------
// hashing

type fnv64 uint64

const fnvInit fnv64 = 14695981039346656037

func (h fnv64) add(v uint64) fnv64 {
	for i := 0; i < 8; i++ {
		h ^= fnv64(v & 0xff)
		h *= 1099511628211
		v >>= 8
	}
	return h
}

// SortedPairs lists the observed context-switch site pairs deterministically.
func (r *Result) SortedPairs() [][2]int {
	out := make([][2]int, 0, len(r.Pairs))
	for p := range r.Pairs {
		out = append(out, p)
	}
	sort.Slice(out, func(i, j int) bool {
		if out[i][0] != out[j][0] {
			return out[i][0] < out[j][0]
		}
		return out[i][1] < out[j][1]
	})
	return out
}

var realStack = os.Getenv("SIM_REAL_STACK") != ""

// Stack replaces runtime/debug.Stack in instrumented code: goatcore's error values capture
// a stack trace each; no oracle reads it.
func Stack() []byte {
	if realStack {
		return debug.Stack()
	}
	return []byte("(stack trace omitted in simulation)")
}

// IsAbort reports whether a recovered panic value is the simulator's own unwinding signal;
// harness code that recovers panics must re-panic it.
func IsAbort(p interface{}) bool {
	_, ok := p.(abortSentinel)
	return ok
}

// ---------------------------------------------------------------------------------
// select

// SelCase is one communication clause of a select statement.
type SelCase struct {
	Ch   interface{}
	Send bool
	Val  interface{}
}

func RecvCase(ch interface{}) SelCase               { return SelCase{Ch: ch} }
func SendCase(ch interface{}, v interface{}) SelCase { return SelCase{Ch: ch, Send: true, Val: v} }

// Select replaces the select statement. When several clauses are ready the Go runtime
// picks one at random; here the clauses are tried one at a time in an order taken from the
// choice stream, so the pick is a recorded, replayable decision. It returns the index of the
// clause that proceeded (-1: default), and for a receive the value and the ok flag.
func Select(hasDefault bool, cases ...SelCase) (int, interface{}, bool) {
	rc := make([]reflect.SelectCase, len(cases))
	chs := make([]interface{}, 0, len(cases))
	for i, c := range cases {
		v := reflect.ValueOf(c.Ch)
		if c.Send {
			val := reflect.ValueOf(c.Val)
			if !val.IsValid() {
				val = reflect.Zero(v.Type().Elem())
			}
			rc[i] = reflect.SelectCase{Dir: reflect.SelectSend, Chan: v, Send: val}
		} else {
			rc[i] = reflect.SelectCase{Dir: reflect.SelectRecv, Chan: v}
		}
		chs = append(chs, c.Ch)
	}
	out := func(i int, recv reflect.Value, ok bool) (int, interface{}, bool) {
		if i >= 0 && !cases[i].Send && recv.IsValid() {
			return i, recv.Interface(), ok
		}
		return i, nil, ok
	}
	s := active()
	if s == nil {
		all := rc
		if hasDefault {
			all = append(append([]reflect.SelectCase{}, rc...), reflect.SelectCase{Dir: reflect.SelectDefault})
		}
		i, recv, ok := reflect.Select(all)
		if hasDefault && i == len(rc) {
			i = -1
		}
		return out(i, recv, ok)
	}
	t := s.cur
	s.park(t, whyChan)
	s.chanRelease(t, chs)
	order := make([]int, len(rc))
	for i := range order {
		order[i] = i
	}
	for i := len(order) - 1; i > 0; i-- {
		j := Draw(i + 1)
		order[i], order[j] = order[j], order[i]
	}
	for _, i := range order {
		c, recv, ok := reflect.Select([]reflect.SelectCase{rc[i], {Dir: reflect.SelectDefault}})
		if c == 0 {
			s.chanAcquire(t, chs)
			return out(i, recv, ok)
		}
	}
	if hasDefault {
		return -1, nil, false
	}
	// nothing is ready: block for real. Whoever makes a clause ready resolves the select at
	// that moment, so exactly one clause can fire: no hidden choice is left.
	s.mu.Lock()
	t.state = stExternal
	s.mu.Unlock()
	i, recv, ok := reflect.Select(rc)
	Post(&Handle{t: t, chs: chs})
	return out(i, recv, ok)
}

// Elem converts the value received by Select to the element type of ch.
func Elem[T any](ch <-chan T, v interface{}) T {
	if v == nil {
		var z T
		return z
	}
	return v.(T)
}

// WaitQuiescent parks the calling task until no other task is runnable (everybody else is
// blocked, waiting for a timer, or finished): "by quiescence" clauses are judged after it.
func WaitQuiescent() {
	s := active()
	if s == nil {
		return
	}
	t := s.cur
	for i := 0; i < 100000; i++ {
		s.park(t, whyYield) // a full controller cycle: woken tasks have reached their park by now
		others := 0
		s.mu.Lock()
		for _, o := range s.tasks {
			if o != t && o.state == stRunnable {
				others++
			}
		}
		s.mu.Unlock()
		if others == 0 {
			return
		}
	}
}
