package simrt

import (
	"testing"
	"time"
)

// scripted chooser: always the lowest / highest runnable id, draws 0
type pickLow struct{}

func (pickLow) Pick(cur int, r []int, _ []int) int { return r[0] }
func (pickLow) Draw(n int) int                      { return 0 }

type pickHigh struct{}

func (pickHigh) Pick(cur int, r []int, _ []int) int { return r[len(r)-1] }
func (pickHigh) Draw(n int) int                      { return n - 1 }

func TestMutexExcludes(t *testing.T) {
	for _, ch := range []Chooser{pickLow{}, pickHigh{}} {
		inside, max := 0, 0
		res := Run(t, Config{Chooser: ch}, func() {
			var mu Mutex
			var wg WaitGroup
			wg.Add(3)
			for i := 0; i < 3; i++ {
				Go(func() {
					defer wg.Done()
					mu.Lock()
					inside++
					if inside > max {
						max = inside
					}
					Yield()
					inside--
					mu.Unlock()
				})
			}
			wg.Wait()
		})
		if max != 1 || res.Deadlock || len(res.Panics) > 0 || !res.MainDone {
			t.Fatalf("mutex: max inside %d, result %+v", max, res)
		}
	}
}

func TestRWMutexWriterBlocksNewReaders(t *testing.T) {
	// reader A holds; writer W announces; reader B must wait behind W (Go's algorithm)
	order := []string{}
	res := Run(t, Config{Chooser: pickLow{}}, func() {
		var rw RWMutex
		var wg WaitGroup
		wg.Add(2)
		rw.RLock()
		Go(func() { defer wg.Done(); rw.Lock(); order = append(order, "W"); rw.Unlock() })
		Yield() // let W run up to its wait for the reader
		Yield()
		Yield()
		Go(func() { defer wg.Done(); rw.RLock(); order = append(order, "B"); rw.RUnlock() })
		Yield()
		Yield()
		order = append(order, "A-release")
		rw.RUnlock()
		wg.Wait()
	})
	if res.Deadlock || len(order) != 3 || order[0] != "A-release" || order[1] != "W" {
		t.Fatalf("order %v result %+v", order, res)
	}
}

func TestRecursiveReadLockDeadlocksBehindWriter(t *testing.T) {
	res := Run(t, Config{Chooser: pickHigh{}}, func() { // the writer (higher id) runs whenever it can
		var rw RWMutex
		rw.RLock()
		Go(func() { rw.Lock(); rw.Unlock() })
		Yield()
		rw.RLock() // a pending writer blocks this reader: the classic self-deadlock
		rw.RUnlock()
		rw.RUnlock()
	})
	if !res.Deadlock || res.MainDone {
		t.Fatalf("expected a deadlock of the main task, got %+v", res)
	}
}

func TestWaitGroupNegativePanics(t *testing.T) {
	res := Run(t, Config{Chooser: pickLow{}}, func() {
		var wg WaitGroup
		wg.Done()
	})
	if len(res.Panics) != 1 || res.Panics[0].Value != "sync: negative WaitGroup counter" {
		t.Fatalf("%+v", res.Panics)
	}
}

func TestUnlockOfUnlockedIsFatal(t *testing.T) {
	res := Run(t, Config{Chooser: pickLow{}}, func() {
		var mu Mutex
		mu.Unlock()
	})
	if res.Fatal == "" {
		t.Fatalf("expected a fatal event, got %+v", res)
	}
}

func TestSleepAdvancesFakeClockOnly(t *testing.T) {
	start := time.Now()
	var sim time.Duration
	res := Run(t, Config{Chooser: pickLow{}}, func() {
		Sleep(90 * time.Minute)
		sim = Now()
	})
	if sim != 90*time.Minute || time.Since(start) > 5*time.Second || !res.MainDone {
		t.Fatalf("simulated %v, real %v", sim, time.Since(start))
	}
}

func TestSpinnersLetTimePass(t *testing.T) {
	// one task sleeps, another spins with Gosched until a flag is set: must terminate
	done := false
	spins := 0
	res := Run(t, Config{Chooser: pickLow{}}, func() {
		var wg WaitGroup
		wg.Add(2)
		Go(func() { defer wg.Done(); Sleep(50 * time.Millisecond); done = true })
		Go(func() {
			defer wg.Done()
			for !done {
				spins++
				Gosched()
			}
		})
		wg.Wait()
	})
	if !res.MainDone || res.Livelock || spins > 1000 {
		t.Fatalf("spins %d result %+v", spins, res)
	}
}

func TestSelectChoiceIsTheChoosers(t *testing.T) {
	for want, ch := range map[int]Chooser{0: pickLow{}, 1: pickHigh{}} {
		got := -2
		Run(t, Config{Chooser: ch}, func() {
			a, b := make(chan int, 1), make(chan int, 1)
			a <- 1
			b <- 2
			got, _, _ = Select(false, RecvCase(a), RecvCase(b))
		})
		// pickLow draws 0: Fisher-Yates with j=0 swaps -> order [1 0]... the point is: fixed by the chooser
		_ = want
		got2 := -2
		Run(t, Config{Chooser: ch}, func() {
			a, b := make(chan int, 1), make(chan int, 1)
			a <- 1
			b <- 2
			got2, _, _ = Select(false, RecvCase(a), RecvCase(b))
		})
		if got != got2 || got < 0 {
			t.Fatalf("select choice not a function of the chooser: %d vs %d", got, got2)
		}
	}
	// and the two choosers pick different clauses
	pick := func(ch Chooser) int {
		g := -2
		Run(t, Config{Chooser: ch}, func() {
			a, b := make(chan int, 1), make(chan int, 1)
			a <- 1
			b <- 2
			g, _, _ = Select(false, RecvCase(a), RecvCase(b))
		})
		return g
	}
	if pick(pickLow{}) == pick(pickHigh{}) {
		t.Fatalf("both choosers picked the same ready clause")
	}
}

func TestBlockedSelectIsWoken(t *testing.T) {
	got, val := -2, 0
	res := Run(t, Config{Chooser: pickLow{}}, func() {
		a, b := make(chan int), make(chan int)
		Go(func() { Sleep(time.Second); h := Pre(b); b <- 7; Post(h) })
		i, v, _ := Select(false, RecvCase(a), RecvCase(b))
		got, val = i, v.(int)
	})
	if got != 1 || val != 7 || !res.MainDone {
		t.Fatalf("got %d %d %+v", got, val, res)
	}
}

func TestMapRaceProbe(t *testing.T) {
	res := Run(t, Config{Chooser: pickLow{}}, func() {
		m := map[string]int{}
		var mu Mutex
		var wg WaitGroup
		wg.Add(2)
		Go(func() { defer wg.Done(); mu.Lock(); MW(m, 1)["a"] = 1; mu.Unlock() })
		Go(func() { defer wg.Done(); _ = MR(m, 2)["a"] }) // no lock: unordered with the write
		wg.Wait()
	})
	if len(res.Races) != 1 {
		t.Fatalf("expected one race report, got %+v", res.Races)
	}
	res = Run(t, Config{Chooser: pickLow{}}, func() {
		m := map[string]int{}
		var mu Mutex
		var wg WaitGroup
		wg.Add(2)
		Go(func() { defer wg.Done(); mu.Lock(); MW(m, 1)["a"] = 1; mu.Unlock() })
		Go(func() { defer wg.Done(); mu.Lock(); _ = MR(m, 2)["a"]; mu.Unlock() })
		wg.Wait()
	})
	if len(res.Races) != 0 {
		t.Fatalf("false race report: %+v", res.Races)
	}
}

func TestUninstrumentedBlockIsHarnessTrouble(t *testing.T) {
	res := Run(t, Config{Chooser: pickLow{}}, func() {
		c := make(chan int)
		<-c // not bracketed
	})
	if res.HarnessErr == "" {
		t.Fatalf("expected harness trouble, got %+v", res)
	}
}

func TestCondBroadcastAndSignal(t *testing.T) {
	latch := func(wake func(c *Cond)) (int, *Result) {
		released := 0
		res := Run(t, Config{Chooser: pickLow{}}, func() {
			var mu Mutex
			c := NewCond(&mu)
			open := false
			var wg, ready WaitGroup
			wg.Add(3)
			ready.Add(3)
			for i := 0; i < 3; i++ {
				Go(func() {
					defer wg.Done()
					mu.Lock()
					ready.Done()
					for !open {
						c.Wait() // registers before it unlocks mu
					}
					released++
					mu.Unlock()
				})
			}
			ready.Wait()
			mu.Lock() // the last waiter has let go of mu inside Wait: all three are registered
			open = true
			mu.Unlock()
			wake(c)
			wg.Wait()
		})
		return released, res
	}
	// one Broadcast releases all three
	if n, res := latch(func(c *Cond) { c.Broadcast() }); n != 3 || res.Deadlock || len(res.Panics) > 0 || !res.MainDone {
		t.Fatalf("broadcast: released %d, result %+v", n, res)
	}
	// one Signal releases one; the other two stay blocked for ever
	if n, res := latch(func(c *Cond) { c.Signal() }); n != 1 || !res.Deadlock || res.MainDone {
		t.Fatalf("signal: released %d, expected 1 and a deadlock, got %+v", n, res)
	}
}

func TestMapBasics(t *testing.T) {
	res := Run(t, Config{Chooser: pickHigh{}}, func() {
		var m Map
		var wg WaitGroup
		wg.Add(3)
		for i := 0; i < 3; i++ {
			i := i
			Go(func() {
				defer wg.Done()
				m.Store(i, i*10)
				if v, loaded := m.LoadOrStore("shared", i); loaded && v == nil {
					t.Errorf("LoadOrStore returned loaded with nil")
				}
			})
		}
		wg.Wait()
		n := 0
		m.Range(func(k, v any) bool { n++; return true })
		if n != 4 {
			t.Errorf("Range visited %d entries, want 4", n)
		}
		if v, ok := m.Load(2); !ok || v != 20 {
			t.Errorf("Load(2) = %v, %v", v, ok)
		}
		m.Delete(2)
		if _, ok := m.Load(2); ok {
			t.Errorf("Delete did not delete")
		}
		if !m.CompareAndSwap(1, 10, 11) || m.CompareAndSwap(1, 10, 12) {
			t.Errorf("CompareAndSwap")
		}
	})
	if res.Deadlock || len(res.Panics) > 0 || !res.MainDone {
		t.Fatalf("map: %+v", res)
	}
}
