package simrt

import "testing"

func BenchmarkYield(b *testing.B) {
	n := b.N
	Run(&testing.T{}, Config{Chooser: pickLow{}, MaxSteps: 1 << 60}, func() {
		var wg WaitGroup
		wg.Add(2)
		for k := 0; k < 2; k++ {
			Go(func() {
				defer wg.Done()
				for i := 0; i < n/2; i++ {
					Yield()
				}
			})
		}
		wg.Wait()
	})
}
