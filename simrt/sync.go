package simrt

import "fmt"

// Locker mirrors sync.Locker.
type Locker interface {
	Lock()
	Unlock()
}

// Mutex replaces sync.Mutex.  The zero value is an unlocked mutex.
type Mutex struct {
	locked  bool
	owner   int
	waiters []*Task
	vc      vclock
}

func (m *Mutex) Lock() {
	s := active()
	if s == nil {
		if S != nil {
			return // aborted simulation: deferred clean-up code must not block
		}
		if m.locked {
			panic("simrt: Lock of a locked mutex by the only goroutine (self-deadlock)")
		}
		m.locked = true
		return
	}
	t := s.cur
	s.park(t, whyLock)
	for m.locked {
		m.waiters = append(m.waiters, t)
		s.block(t, fmt.Sprintf("Mutex.Lock (held by task %d)", m.owner))
	}
	m.locked = true
	m.owner = t.ID
	t.vc.join(m.vc)
}

// TryLock mirrors sync.Mutex.TryLock.
func (m *Mutex) TryLock() bool {
	s := active()
	if s == nil {
		if m.locked {
			return false
		}
		m.locked = true
		return true
	}
	t := s.cur
	s.park(t, whyLock)
	if m.locked {
		return false
	}
	m.locked = true
	m.owner = t.ID
	t.vc.join(m.vc)
	return true
}

func (m *Mutex) Unlock() {
	s := active()
	if s == nil {
		if S != nil {
			return
		}
		if !m.locked {
			panic("sync: unlock of unlocked mutex")
		}
		m.locked = false
		return
	}
	t := s.cur
	if !m.locked {
		s.fatal("fatal error: sync: unlock of unlocked mutex")
		return
	}
	m.vc = t.vc.clone()
	t.vc.tick(t.ID)
	m.locked = false
	m.owner = 0
	for _, w := range m.waiters {
		s.makeRunnable(w)
	}
	m.waiters = m.waiters[:0]
	s.park(t, whyUnlock)
}

// RWMutex replaces sync.RWMutex and follows its algorithm: writers exclude each other
// through an inner mutex; a pending writer blocks new readers; readers that queued up
// behind a writer are all admitted when it unlocks.
type RWMutex struct {
	wLocked     bool // inner writer mutex
	wOwner      int
	wWaiters    []*Task
	readers     int  // active readers
	pending     bool // a writer announced itself (holds or waits for readers to drain)
	readerWait  int  // readers the pending writer still waits for
	writerTask  *Task
	writerWaits bool
	rQueue      []*Task // readers blocked behind the pending writer
	wvc         vclock  // released by writers, acquired by everybody
	rvc         vclock  // released by readers, acquired by writers
}

func (rw *RWMutex) RLock() {
	s := active()
	if s == nil {
		if S != nil {
			return
		}
		if rw.pending {
			panic("simrt: RLock while write-locked by the only goroutine (self-deadlock)")
		}
		rw.readers++
		return
	}
	t := s.cur
	s.park(t, whyLock)
	if rw.pending {
		rw.rQueue = append(rw.rQueue, t)
		// admitted (and counted) by the writer's Unlock
		s.block(t, fmt.Sprintf("RWMutex.RLock (writer task %d pending)", rw.wOwner))
	} else {
		rw.readers++
	}
	t.vc.join(rw.wvc)
}

func (rw *RWMutex) RUnlock() {
	s := active()
	if s == nil {
		if S != nil {
			return
		}
		if rw.readers <= 0 {
			panic("sync: RUnlock of unlocked RWMutex")
		}
		rw.readers--
		return
	}
	t := s.cur
	if rw.readers <= 0 {
		s.fatal("fatal error: sync: RUnlock of unlocked RWMutex")
		return
	}
	rw.rvc.join(t.vc)
	t.vc.tick(t.ID)
	rw.readers--
	if rw.pending && rw.writerWaits {
		rw.readerWait--
		if rw.readerWait == 0 {
			rw.writerWaits = false
			s.makeRunnable(rw.writerTask)
		}
	}
	s.park(t, whyUnlock)
}

func (rw *RWMutex) Lock() {
	s := active()
	if s == nil {
		if S != nil {
			return
		}
		if rw.pending || rw.readers > 0 {
			panic("simrt: Lock of a held RWMutex by the only goroutine (self-deadlock)")
		}
		rw.pending = true
		rw.wLocked = true
		return
	}
	t := s.cur
	s.park(t, whyLock)
	for rw.wLocked {
		rw.wWaiters = append(rw.wWaiters, t)
		s.block(t, fmt.Sprintf("RWMutex.Lock (writer task %d holds)", rw.wOwner))
	}
	rw.wLocked = true
	rw.wOwner = t.ID
	rw.pending = true
	rw.writerTask = t
	if rw.readers > 0 {
		rw.readerWait = rw.readers
		rw.writerWaits = true
		s.block(t, fmt.Sprintf("RWMutex.Lock (waiting for %d readers)", rw.readerWait))
	}
	t.vc.join(rw.wvc)
	t.vc.join(rw.rvc)
}

func (rw *RWMutex) Unlock() {
	s := active()
	if s == nil {
		if S != nil {
			return
		}
		if !rw.pending {
			panic("sync: Unlock of unlocked RWMutex")
		}
		rw.pending = false
		rw.wLocked = false
		return
	}
	t := s.cur
	if !rw.pending || rw.writerWaits {
		s.fatal("fatal error: sync: Unlock of unlocked RWMutex")
		return
	}
	rw.wvc = t.vc.clone()
	t.vc.tick(t.ID)
	rw.pending = false
	rw.writerTask = nil
	// admit every reader that queued behind this writer
	for _, r := range rw.rQueue {
		rw.readers++
		s.makeRunnable(r)
	}
	rw.rQueue = rw.rQueue[:0]
	rw.wLocked = false
	rw.wOwner = 0
	for _, w := range rw.wWaiters {
		s.makeRunnable(w)
	}
	rw.wWaiters = rw.wWaiters[:0]
	s.park(t, whyUnlock)
}

// TryLock / TryRLock mirror the sync methods.
func (rw *RWMutex) TryLock() bool {
	s := active()
	if s != nil {
		s.park(s.cur, whyLock)
	}
	if rw.wLocked || rw.readers > 0 || rw.pending {
		return false
	}
	rw.wLocked = true
	rw.pending = true
	if s != nil {
		t := s.cur
		rw.wOwner = t.ID
		rw.writerTask = t
		t.vc.join(rw.wvc)
		t.vc.join(rw.rvc)
	}
	return true
}

func (rw *RWMutex) TryRLock() bool {
	s := active()
	if s != nil {
		s.park(s.cur, whyLock)
	}
	if rw.pending {
		return false
	}
	rw.readers++
	if s != nil {
		s.cur.vc.join(rw.wvc)
	}
	return true
}

// RLocker mirrors sync.RWMutex.RLocker.
func (rw *RWMutex) RLocker() Locker { return (*rlocker)(rw) }

type rlocker RWMutex

func (r *rlocker) Lock()   { (*RWMutex)(r).RLock() }
func (r *rlocker) Unlock() { (*RWMutex)(r).RUnlock() }

// WaitGroup replaces sync.WaitGroup.
type WaitGroup struct {
	n       int
	waiters []*Task
	vc      vclock
}

func (wg *WaitGroup) Add(delta int) {
	s := active()
	if s == nil {
		if S != nil {
			return
		}
		wg.n += delta
		if wg.n < 0 {
			panic("sync: negative WaitGroup counter")
		}
		return
	}
	t := s.cur
	s.park(t, whyLock)
	wg.vc.join(t.vc)
	t.vc.tick(t.ID)
	wg.n += delta
	if wg.n < 0 {
		panic("sync: negative WaitGroup counter")
	}
	if wg.n == 0 {
		for _, w := range wg.waiters {
			s.makeRunnable(w)
		}
		wg.waiters = wg.waiters[:0]
	}
}

func (wg *WaitGroup) Done() { wg.Add(-1) }

func (wg *WaitGroup) Wait() {
	s := active()
	if s == nil {
		if S != nil {
			return
		}
		if wg.n > 0 {
			panic("simrt: WaitGroup.Wait with a positive counter by the only goroutine (self-deadlock)")
		}
		return
	}
	t := s.cur
	s.park(t, whyLock)
	for wg.n > 0 {
		wg.waiters = append(wg.waiters, t)
		s.block(t, fmt.Sprintf("WaitGroup.Wait (counter %d)", wg.n))
	}
	t.vc.join(wg.vc)
}

// Once replaces sync.Once.
type Once struct {
	done    bool
	running bool
	waiters []*Task
	vc      vclock
}

func (o *Once) Do(f func()) {
	s := active()
	if s == nil {
		if o.done {
			return
		}
		o.done = true
		f()
		return
	}
	t := s.cur
	s.park(t, whyLock)
	for o.running {
		o.waiters = append(o.waiters, t)
		s.block(t, "Once.Do (running elsewhere)")
	}
	if o.done {
		t.vc.join(o.vc)
		return
	}
	o.running = true
	defer func() {
		o.running = false
		o.done = true
		o.vc = t.vc.clone()
		t.vc.tick(t.ID)
		for _, w := range o.waiters {
			s.makeRunnable(w)
		}
		o.waiters = nil
	}()
	f()
}

// ---------------------------------------------------------------------------------
// vector clocks

type vclock []uint32

func (v vclock) clone() vclock {
	c := make(vclock, len(v))
	copy(c, v)
	return c
}

func (v *vclock) tick(id int) {
	for len(*v) <= id {
		*v = append(*v, 0)
	}
	(*v)[id]++
}

func (v *vclock) join(o vclock) {
	for len(*v) < len(o) {
		*v = append(*v, 0)
	}
	for i, x := range o {
		if x > (*v)[i] {
			(*v)[i] = x
		}
	}
}

func (v vclock) get(id int) uint32 {
	if id < len(v) {
		return v[id]
	}
	return 0
}

func (s *Sim) chanRelease(t *Task, chs []any) {
	for _, c := range chs {
		if c == nil {
			continue
		}
		vc := s.chans[c]
		if vc == nil {
			vc = &vclock{}
			s.chans[c] = vc
		}
		vc.join(t.vc)
	}
	if len(chs) > 0 {
		t.vc.tick(t.ID)
	}
}

func (s *Sim) chanAcquire(t *Task, chs []any) {
	for _, c := range chs {
		if c == nil {
			continue
		}
		if vc := s.chans[c]; vc != nil {
			t.vc.join(*vc)
		}
	}
}

// Cond replaces sync.Cond. Which waiter Signal wakes is a recorded choice (the
// documentation of sync.Cond promises "one goroutine", not which).
type Cond struct {
	L       Locker
	waiters []*condWaiter
	vc      vclock
}

type condWaiter struct {
	t     *Task
	woken bool
}

// NewCond mirrors sync.NewCond.
func NewCond(l Locker) *Cond { return &Cond{L: l} }

// Wait unlocks c.L, blocks until woken by Signal or Broadcast, and locks c.L again.
func (c *Cond) Wait() {
	s := active()
	if s == nil {
		if S != nil {
			return
		}
		panic("simrt: Cond.Wait by the only goroutine (nobody can signal: self-deadlock)")
	}
	t := s.cur
	w := &condWaiter{t: t}
	c.waiters = append(c.waiters, w) // registered before the unlock, as in sync.Cond
	c.L.Unlock()
	for !w.woken {
		s.block(t, "Cond.Wait")
	}
	t.vc.join(c.vc)
	c.L.Lock()
}

func (c *Cond) release(s *Sim, i int) {
	w := c.waiters[i]
	c.waiters = append(c.waiters[:i], c.waiters[i+1:]...)
	w.woken = true
	s.makeRunnable(w.t)
}

// Signal wakes one waiting task, if there is any.
func (c *Cond) Signal() {
	s := active()
	if s == nil {
		return
	}
	t := s.cur
	s.park(t, whyLock)
	c.vc.join(t.vc)
	t.vc.tick(t.ID)
	if len(c.waiters) == 0 {
		return
	}
	i := 0
	if len(c.waiters) > 1 {
		i = Draw(len(c.waiters))
	}
	c.release(s, i)
}

// Broadcast wakes all waiting tasks.
func (c *Cond) Broadcast() {
	s := active()
	if s == nil {
		return
	}
	t := s.cur
	s.park(t, whyLock)
	c.vc.join(t.vc)
	t.vc.tick(t.ID)
	for len(c.waiters) > 0 {
		c.release(s, 0)
	}
}

// Map replaces sync.Map: a mutex-protected map; every method is one atomic step with a
// scheduling point before it. Range visits a snapshot in an order drawn from the choice
// stream (sync.Map promises no order).
type Map struct {
	mu    Mutex
	m     map[any]any
	order []any // insertion order: a run-independent base for the drawn permutation
}

func (m *Map) locked(f func()) {
	m.mu.Lock()
	defer m.mu.Unlock()
	if m.m == nil {
		m.m = map[any]any{}
	}
	f()
}

func (m *Map) drop(key any) {
	delete(m.m, key)
	for i, k := range m.order {
		if k == key {
			m.order = append(m.order[:i], m.order[i+1:]...)
			break
		}
	}
}

func (m *Map) put(key, value any) {
	if _, ok := m.m[key]; !ok {
		m.order = append(m.order, key)
	}
	m.m[key] = value
}

func (m *Map) Load(key any) (value any, ok bool) {
	m.locked(func() { value, ok = m.m[key] })
	return
}

func (m *Map) Store(key, value any) { m.locked(func() { m.put(key, value) }) }

func (m *Map) LoadOrStore(key, value any) (actual any, loaded bool) {
	m.locked(func() {
		if actual, loaded = m.m[key]; !loaded {
			m.put(key, value)
			actual = value
		}
	})
	return
}

func (m *Map) LoadAndDelete(key any) (value any, loaded bool) {
	m.locked(func() {
		if value, loaded = m.m[key]; loaded {
			m.drop(key)
		}
	})
	return
}

func (m *Map) Delete(key any) { m.LoadAndDelete(key) }

func (m *Map) Swap(key, value any) (previous any, loaded bool) {
	m.locked(func() {
		previous, loaded = m.m[key]
		m.put(key, value)
	})
	return
}

func (m *Map) CompareAndSwap(key, old, new any) (swapped bool) {
	m.locked(func() {
		if v, ok := m.m[key]; ok && v == old {
			m.m[key] = new
			swapped = true
		}
	})
	return
}

func (m *Map) CompareAndDelete(key, old any) (deleted bool) {
	m.locked(func() {
		if v, ok := m.m[key]; ok && v == old {
			m.drop(key)
			deleted = true
		}
	})
	return
}

func (m *Map) Range(f func(key, value any) bool) {
	var keys []any
	m.locked(func() { keys = append(keys, m.order...) })
	for i := len(keys) - 1; i > 0; i-- {
		j := Draw(i + 1)
		keys[i], keys[j] = keys[j], keys[i]
	}
	for _, k := range keys {
		v, ok := m.Load(k)
		if !ok {
			continue
		}
		if !f(k, v) {
			return
		}
	}
}

func (m *Map) Clear() {
	m.locked(func() {
		m.m = map[any]any{}
		m.order = nil
	})
}

// Pool replaces sync.Pool. A pool may hand back an item that was Put, or drop it: which of
// the two happens is a recorded choice, so code that relies on getting its item back (or on
// never getting a used one) meets both.
type Pool struct {
	New   func() any
	items []any
}

func (p *Pool) Get() any {
	if n := len(p.items); n > 0 {
		if Draw(4) != 0 { // three times out of four the pool still has it
			x := p.items[n-1]
			p.items = p.items[:n-1]
			return x
		}
		p.items = p.items[:n-1] // dropped, as after a garbage collection
	}
	if p.New != nil {
		return p.New()
	}
	return nil
}

func (p *Pool) Put(x any) {
	if x == nil {
		return
	}
	p.items = append(p.items, x)
}
