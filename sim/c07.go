package simcheck

import (
	"fmt"
	"strings"

	"github.com/goatcms/goatcore/filesystem"
	"github.com/goatcms/goatcore/filesystem/filespace/memfs"
	"github.com/goatcms/goatcore/filesystem/fscache"
)

// C07 — cache read-your-writes (fault-free configuration of the C06 simulator).
//
// Random initial remote tree, a history of cache operations on overlapping paths (root and
// child views of the cache); after every operation all read-type operations answer as the
// model (initial remote + successful operations) says: whole tree walked through the cache,
// queries in several spellings through every view.

type treeSpec struct {
	Dirs  []string          `json:"dirs"`
	Files map[string]string `json:"files"`
}

type cacheIn struct {
	Remote  treeSpec `json:"remote"`
	Ops     []FsOp   `json:"ops"`
	Commits []int    `json:"commits,omitempty"` // C06: Commit after these operation indexes (and always at the end)
	Disk    bool     `json:"disk,omitempty"`    // remote is a disk filespace
	Steer   bool     `json:"steer"`             // generation avoided the triggers of listed known findings
	Wide    *WideSpec `json:"wide,omitempty"`   // C07: the remote also has a many-entry directory "w"
	Light   bool      `json:"light,omitempty"`  // C06: fault-free execution only (no fault enumeration): many more histories for the same time
}

func genTree(r *Rand, maxNodes int) treeSpec {
	t := treeSpec{Files: map[string]string{}}
	n := r.Intn(maxNodes + 1)
	used := map[string]bool{}
	dirs := []string{""}
	for i := 0; i < n; i++ {
		parent := dirs[r.Intn(len(dirs))]
		name := poolName(r)
		p := strings.TrimPrefix(parent+"/"+name, "/")
		if used[p] || strings.Count(p, "/") >= 3 {
			continue
		}
		used[p] = true
		if r.Chance(2, 5) {
			t.Dirs = append(t.Dirs, p)
			dirs = append(dirs, p)
		} else {
			t.Files[p] = fmt.Sprintf("r%d:%s", i, strings.Repeat("y", r.Pick(0, 1, 4, 30)))
		}
	}
	return t
}

func populate(fs filesystem.Filespace, m *ModelTree, t treeSpec) error {
	for _, d := range t.Dirs {
		if fs != nil {
			if err := fs.MkdirAll(d, filesystem.DefaultUnixDirMode); err != nil {
				return err
			}
		}
		if m != nil {
			m.mkdirs(strings.Split(d, "/"))
		}
	}
	for _, p := range sortedNamesS(t.Files) {
		if fs != nil {
			if err := fs.WriteFile(p, []byte(t.Files[p]), filesystem.DefaultUnixFileMode); err != nil {
				return err
			}
		}
		if m != nil {
			segs := strings.Split(p, "/")
			m.mkdirs(segs[:len(segs)-1]).kids[segs[len(segs)-1]] = &mnode{data: []byte(t.Files[p])}
		}
	}
	return nil
}

func sortedNamesS(m map[string]string) []string {
	b := map[string]bool{}
	for k := range m {
		b[k] = true
	}
	return sortedNames(b)
}

// steerCacheOps rewrites operations that would trigger a listed known finding of the
// cache into harmless ones, so that what lies behind those triggers is still explored.
func steerCacheOps(prop string, remote treeSpec, ops []FsOp) []FsOp {
	inRemote := func(p string) bool {
		segs, climbs := normPath(p)
		if climbs {
			return false
		}
		q := strings.Join(segs, "/")
		if _, ok := remote.Files[q]; ok {
			return true
		}
		for _, d := range remote.Dirs {
			if d == q || strings.HasPrefix(d, q+"/") {
				return true
			}
		}
		for f := range remote.Files {
			if strings.HasPrefix(f, q+"/") {
				return true
			}
		}
		return q == ""
	}
	out := make([]FsOp, 0, len(ops))
	for _, op := range ops {
		for _, k := range cacheSteerRules {
			if matchFinding(prop, k.clause, k.key) != nil && k.trigger(op, inRemote) {
				op = FsOp{Kind: "IsExist", Path: op.Path, View: op.View}
			}
		}
		out = append(out, op)
	}
	return out
}

type steerRule struct {
	clause, key string
	trigger     func(op FsOp, inRemote func(string) bool) bool
}

var cacheSteerRules []steerRule

func c07Gen(r *Rand, tier string) interface{} {
	in := &cacheIn{Remote: genTree(r, 8)}
	n := 1 + r.Intn(25)
	if r.Chance(1, 3) {
		n = 1 + r.Intn(6)
	}
	gm := NewModelTree()
	_ = populate(nil, gm, in.Remote)
	if r.Chance(1, 20) && !gm.has("w") && gm.lookup([]string{"w"}) == nil {
		in.Wide = genWide(r)
		in.Wide.Remove = 0 // removals, if any, come from the generated operations (through the cache)
		_ = in.Wide.Apply(nil, gm, nil)
		n = 1 + r.Intn(12)
	}
	in.Ops = genFsOps(r, n, nil, r.Chance(1, 2), gm)
	if r.Chance(1, 2) {
		in.Steer = true
		in.Ops = steerCacheOps("C07", in.Remote, in.Ops)
	}
	return in
}

func c07Run(inI interface{}, env *Env) *Failure {
	in := inI.(*cacheIn)
	env.Count("nontrivial")
	remote, err := memfs.NewFilespace()
	if err != nil {
		panic(harnessTrouble{err.Error()})
	}
	model := NewModelTree()
	if err := populate(remote, model, in.Remote); err != nil {
		panic(harnessTrouble{"populate: " + err.Error()})
	}
	if in.Wide != nil {
		env.Count("probe.remote-with-a-many-entry-directory")
		if err := in.Wide.Apply(remote, model, nil); err != nil {
			panic(harnessTrouble{"wide directory on the remote: " + err.Error()})
		}
	}
	cache, err := fscache.NewMemCache(remote)
	if err != nil {
		panic(harnessTrouble{err.Error()})
	}
	h := &histChecker{prop: "C07", model: model, root: cache, views: []fsView{{fs: cache}}, env: env, lenientMutations: true}
	h.classify = cacheClassifier(in.Remote, h)
	qr := NewRand(uint64(len(in.Ops))*7919 + 23)
	var post *Failure
	// directory copies run a real fsloop (goroutines), so the history runs as a simulation
	res := env.Sim(SimOpts{MaxSteps: 250000, FairSteps: 50000}, func() {
		for i, op := range in.Ops {
			if post = h.step(i, op); post != nil {
				return
			}
			if h.cut {
				break
			}
			if post = h.compareState(i, op, qr); post != nil {
				return
			}
		}
	})
	env.CountN("history.operations", len(in.Ops))
	if f := env.SimFailure("C07", res); f != nil {
		return f
	}
	return post
}

// cacheClassifier names the cause of a mismatch where it is one of the recognised shapes;
// the name becomes part of the failure key (known findings are matched on it).
func cacheClassifier(remote treeSpec, h *histChecker) func(clause string, op FsOp, msg string) string {
	return func(clause string, op FsOp, msg string) string {
		return ""
	}
}

func cacheShrink(inI interface{}) []interface{} {
	in := inI.(*cacheIn)
	var out []interface{}
	for _, c := range fsHistShrink(&fsHistIn{Ops: in.Ops}) {
		n := *in
		n.Ops = c.(*fsHistIn).Ops
		out = append(out, &n)
	}
	for i := range in.Remote.Dirs {
		n := *in
		n.Remote.Dirs = append(append([]string(nil), in.Remote.Dirs[:i]...), in.Remote.Dirs[i+1:]...)
		out = append(out, &n)
	}
	for _, k := range sortedNamesS(in.Remote.Files) {
		n := *in
		n.Remote.Files = map[string]string{}
		for k2, v := range in.Remote.Files {
			if k2 != k {
				n.Remote.Files[k2] = v
			}
		}
		out = append(out, &n)
	}
	if len(in.Commits) > 0 {
		n := *in
		n.Commits = nil
		out = append(out, &n)
	}
	return out
}

func init() {
	register(&Prop{
		ID:     "C07",
		Level:  "exploration",
		Gen:    c07Gen,
		New:    func() interface{} { return &cacheIn{} },
		Run:    c07Run,
		Shrink: cacheShrink,
		Rule: "one case = (initial remote tree of <=8 nodes, history of 1-25 cache operations on overlapping pool paths through the cache and its child views); after every operation the whole tree seen through the cache and 32 queries are compared with the model (initial remote + successful operations); half of the cases are generated steering around the triggers of listed known findings; " +
			"every history is non-trivial; distinct = distinct (remote tree, operation sequence). Single task, fault-free configuration of the C06 simulator.",
		Real:        []string{"filesystem/fscache (Cache)", "filesystem/fshelper (SubFS child views, Copier, StreamCopy, Copy incl. its fsloop)", "filesystem/filespace/memfs as buffer and remote"},
		Stub:        []string{"sync primitives -> simrt (solo mode; the fsloop inside directory copies runs as a one-off simulation)"},
		Assumptions: []string{"same unspecified cases as C01"},
	})
}

