package simcheck

import (
	"fmt"
	"os"
	"path/filepath"
	"sort"
	"strings"

	"github.com/goatcms/goatcore/filesystem"
	"github.com/goatcms/goatcore/filesystem/filespace/diskfs"
	"github.com/goatcms/goatcore/filesystem/filespace/encryptfs"
	"github.com/goatcms/goatcore/filesystem/filespace/encryptfs/cipherfs/aesgcm256cfs"
	"github.com/goatcms/goatcore/filesystem/filespace/memfs"
	"github.com/goatcms/goatcore/filesystem/fscache"
	"github.com/goatcms/goatcore/filesystem/fshelper"
)

// C03 — a filespace never reaches outside its root, whatever path it is given.
//
// For every view kind a parent tree is built with uniquely filled sentinel nodes outside
// the view's root (for disk also in the host directory above the filespace).  Then one
// operation slot (16 operations, both arguments of the copies) is applied with path strings
// built from the segments {s, d, view, n, viewOUT, ".", "..", ""}: every string of 1-3
// segments and every 4-segment string that contains ".." (bounded sweep, run indexes below
// SweepSize), random longer ones beyond.  After every operation: the snapshot of
// everything outside the view's root is byte-identical; no read returns sentinel bytes or
// names; no boolean query reveals an outside node.

var c03ViewKinds = []string{
	"mem-child", "mem-child-child", "mem-child3",
	"disk-root", "disk-child", "disk-child-child",
	"enc-mem-child", "enc-disk-child",
	"ro-mem-child", "ro-disk-child",
	"subfs-mem", "subfs-disk", "subfs-of-subfs-mem",
	"cache-child", "cache-child-child", "ro-cache-buffer-child",
}

var c03Slots = []string{
	"IsExist", "IsFile", "IsDir", "Lstat", "ReadDir", "ReadFile", "Reader", "Filespace",
	"MkdirAll", "WriteFile", "Writer", "Remove", "RemoveAll",
	"Copy:src", "Copy:dst", "CopyFile:src", "CopyFile:dst", "CopyDirectory:src", "CopyDirectory:dst",
}

// "viewOUT" is the sentinel outside every view root; its name deliberately starts with the
// name of the view's own root directory ("view"): a containment test by string prefix
// without a separator boundary lets "../viewOUT" through.
var c03Segs = []string{"s", "d", "view", "n", "viewOUT", ".", "..", ""}

const c03Sentinel = "SENTINEL-OUTSIDE-"

type c03In struct {
	View  string   `json:"view"`
	Slot  string   `json:"slot"`
	Paths []string `json:"paths"`
}

var c03SweepPaths = func() []string {
	var out []string
	var rec func(prefix []string, depth int)
	rec = func(prefix []string, depth int) {
		if len(prefix) > 0 {
			p := strings.Join(prefix, "/")
			if len(prefix) < 4 || strings.Contains(p, "..") {
				out = append(out, p, "/"+p)
			}
		}
		if depth == 4 {
			return
		}
		for _, s := range c03Segs {
			rec(append(append([]string{}, prefix...), s), depth+1)
		}
	}
	rec(nil, 0)
	return out
}()

const c03Chunk = 400

func c03Chunks() int { return (len(c03SweepPaths) + c03Chunk - 1) / c03Chunk }

func c03SweepSize(tier string) int { return len(c03ViewKinds) * len(c03Slots) * c03Chunks() }

func c03GenIndexed(i int, r *Rand, tier string) interface{} {
	if i < c03SweepSize(tier) {
		chunk := i % c03Chunks()
		slot := (i / c03Chunks()) % len(c03Slots)
		view := i / c03Chunks() / len(c03Slots)
		lo, hi := chunk*c03Chunk, min((chunk+1)*c03Chunk, len(c03SweepPaths))
		return &c03In{View: c03ViewKinds[view], Slot: c03Slots[slot], Paths: c03SweepPaths[lo:hi]}
	}
	in := &c03In{View: c03ViewKinds[r.Intn(len(c03ViewKinds))], Slot: c03Slots[r.Intn(len(c03Slots))]}
	for k := 0; k < 60; k++ {
		n := 4 + r.Intn(5)
		var segs []string
		if r.Chance(1, 8) {
			// a long path: 14-40 names down, more ".." than names up, then a sentinel's name
			// (fixed-size segment stacks and depth limits live past 16 and 32)
			down := r.Pick(14, 15, 16, 17, 18, 31, 32, 33, 40)
			for j := 0; j < down; j++ {
				segs = append(segs, []string{"s", "d", "view", "n"}[r.Intn(4)])
			}
			for j := 0; j < down+1+r.Intn(3); j++ {
				segs = append(segs, "..")
			}
			segs = append(segs, []string{"s", "viewOUT", "d/s"}[r.Intn(3)])
			p := strings.Join(segs, "/")
			if r.Bool() {
				p = "/" + p
			}
			in.Paths = append(in.Paths, p)
			continue
		}
		for j := 0; j < n; j++ {
			if r.Chance(1, 6) {
				// a backslash is an ordinary character of a name here; a path cleaner that treats
				// it as a separator at the wrong moment lets "..\x" through its climbing check
				segs = append(segs, []string{"..\\viewOUT", "..\\s", "..\\..", "\\", "s\\..\\..\\s", "..\\view\\..\\viewOUT"}[r.Intn(6)])
				continue
			}
			segs = append(segs, c03Segs[r.Intn(len(c03Segs))])
		}
		p := strings.Join(segs, "/")
		if r.Bool() {
			p = "/" + p
		}
		in.Paths = append(in.Paths, p)
	}
	return in
}

// c03World is a parent tree with a view inside it.
type c03World struct {
	view     filesystem.Filespace
	snapshot func() (map[string]string, error) // everything outside the view's root
	inside   func(p string) bool               // does the clamped path exist inside the view (queried on the parent)
	outside  func(segs []string) bool          // does the unclamped path (relative to the view root) exist outside
	cleanup  func()
	depth    int
	reset    func() error // restore the inside of the view
}

// layout: every directory level (parent root, d, view, view/view, view/view/view) holds
//   s (file), d/s (file), viewOUT (file, only outside the innermost view), view/ ...
func c03Populate(fs filesystem.Filespace, depth int) error {
	prefix := ""
	for level := 0; level <= depth; level++ {
		mark := "viewOUT"
		tag := c03Sentinel
		if level == depth {
			mark = ""
			tag = "inside-"
		}
		files := map[string]string{"s": tag + "s@" + prefix, "d/s": tag + "d/s@" + prefix, "srcfile": tag + "srcfile@" + prefix, "srcdir/f": tag + "srcdir/f@" + prefix}
		if mark != "" {
			files[mark] = tag + "mark@" + prefix
			files["d/"+mark] = tag + "d/mark@" + prefix
		}
		for _, name := range []string{"s", "d/s", "srcfile", "srcdir/f", "viewOUT", "d/viewOUT"} {
			c, ok := files[name]
			if !ok {
				continue
			}
			if err := fs.WriteFile(prefix+name, []byte(c), filesystem.DefaultUnixFileMode); err != nil {
				return err
			}
		}
		if err := fs.MkdirAll(prefix+"view", filesystem.DefaultUnixDirMode); err != nil {
			return err
		}
		prefix += "view/"
	}
	return nil
}

func snapshotFS(fs filesystem.Filespace, skip string) func() (map[string]string, error) {
	return func() (map[string]string, error) {
		got, clause, msg := WalkFS(fs)
		if clause != "" {
			// phantom names etc. are reported by the walk; they are still a difference
			return nil, fmt.Errorf("%s: %s", clause, msg)
		}
		for k := range got {
			if k == skip || strings.HasPrefix(k, skip+"/") {
				delete(got, k)
			}
		}
		return got, nil
	}
}

func snapshotHost(dir, skip string) func() (map[string]string, error) {
	return func() (map[string]string, error) {
		out := map[string]string{}
		err := filepath.Walk(dir, func(p string, info os.FileInfo, err error) error {
			if err != nil {
				return err
			}
			rel, _ := filepath.Rel(dir, p)
			if rel == skip || strings.HasPrefix(rel, skip+"/") {
				if info.IsDir() && rel == skip {
					return filepath.SkipDir
				}
				return nil
			}
			if info.IsDir() {
				out[rel] = "D"
			} else {
				b, err := os.ReadFile(p)
				if err != nil {
					return err
				}
				out[rel] = "F:" + string(b)
			}
			return nil
		})
		return out, err
	}
}

func c03Build(kind string) *c03World {
	w := &c03World{cleanup: func() {}}
	must := func(err error) {
		if err != nil {
			panic(harnessTrouble{"C03 world " + kind + ": " + err.Error()})
		}
	}
	viewPath := "view"
	w.depth = 1
	switch {
	case strings.HasSuffix(kind, "child-child") || strings.HasPrefix(kind, "subfs-of-subfs"):
		viewPath, w.depth = "view/view", 2
	case strings.HasSuffix(kind, "child3"):
		viewPath, w.depth = "view/view/view", 3
	}
	sub := func(fs filesystem.Filespace, times int) filesystem.Filespace {
		for i := 0; i < times; i++ {
			c, err := fs.Filespace("view")
			must(err)
			fs = c
		}
		return fs
	}
	var parent filesystem.Filespace
	isDisk := strings.Contains(kind, "disk")
	if isDisk {
		dir, err := os.MkdirTemp("", "verif-c03-")
		must(err)
		w.cleanup = func() { os.RemoveAll(dir) }
		must(os.MkdirAll(dir+"/root", 0o777))
		must(os.WriteFile(dir+"/HOST_viewOUT", []byte(c03Sentinel+"host"), 0o644))
		must(os.WriteFile(dir+"/s", []byte(c03Sentinel+"host-s"), 0o644))
		parent, err = diskfs.NewFilespace(dir + "/root")
		must(err)
		must(c03Populate(parent, w.depth))
		if kind == "disk-root" {
			// the view is a filespace rooted at root/view; everything else on the host is outside
			v, err := diskfs.NewFilespace(dir + "/root/view")
			must(err)
			w.view = v
		}
		w.snapshot = snapshotHost(dir, "root/"+viewPath)
	} else {
		var err error
		parent, err = memfs.NewFilespace()
		must(err)
		must(c03Populate(parent, w.depth))
		w.snapshot = snapshotFS(parent, viewPath)
	}
	plain := parent
	switch {
	case kind == "disk-root":
	case strings.HasPrefix(kind, "mem-child"), strings.HasPrefix(kind, "disk-child"):
		w.view = sub(parent, w.depth)
	case strings.HasPrefix(kind, "enc-"):
		e, err := encryptfs.NewEncryptFS(parent, encryptfs.Settings{Secret: []byte("k"), Salt: []byte("s"), Cipher: aesgcm256cfs.NewCipher()})
		must(err)
		w.view = sub(e, 1)
	case strings.HasPrefix(kind, "ro-mem"), strings.HasPrefix(kind, "ro-disk"):
		w.view = sub(fshelper.NewReadonlyFS(parent), 1)
	case kind == "subfs-mem", kind == "subfs-disk":
		w.view = fshelper.NewSubFS(parent, "view")
	case kind == "subfs-of-subfs-mem":
		w.view = sub(fshelper.NewSubFS(parent, "view"), 1)
	case kind == "cache-child", kind == "cache-child-child":
		c, err := fscache.NewMemCache(parent)
		must(err)
		w.view = sub(c, w.depth)
	case kind == "ro-cache-buffer-child":
		c, err := fscache.NewMemCache(parent)
		must(err)
		// the cache's read-only buffer view: its own tree is the buffer; writes through the
		// cache give it content, the remote stays "outside" in the sense of the parent tree
		must(c.WriteFile("view/s", []byte("inside-buffer-s"), filesystem.DefaultUnixFileMode))
		must(c.WriteFile("view/d/s", []byte("inside-buffer-d-s"), filesystem.DefaultUnixFileMode))
		must(c.WriteFile("s", []byte(c03Sentinel+"buffer-root-s"), filesystem.DefaultUnixFileMode))
		must(c.WriteFile("viewOUT", []byte(c03Sentinel+"buffer-mark"), filesystem.DefaultUnixFileMode))
		must(c.WriteFile("d/viewOUT", []byte(c03Sentinel+"buffer-d-mark"), filesystem.DefaultUnixFileMode))
		w.view = sub(c.Buffer(), 1)
		plain = c.Buffer()
		w.snapshot = snapshotFS(c.Buffer(), "view")
	default:
		panic(harnessTrouble{"C03: unknown view kind " + kind})
	}
	w.inside = func(p string) bool { return plain.IsExist(viewPath + "/" + p) }
	vsegs := strings.Split(viewPath, "/")
	w.outside = func(segs []string) bool {
		// resolve relative to the view root inside the parent tree, without clamping
		cur := append([]string{}, vsegs...)
		for _, s := range segs {
			switch s {
			case "", ".":
			case "..":
				if len(cur) == 0 {
					return false // above the parent's root: host level (disk) - handled by the snapshot
				}
				cur = cur[:len(cur)-1]
			default:
				cur = append(cur, s)
			}
		}
		if hasPrefix(cur, vsegs) {
			return false
		}
		return plain.IsExist(strings.Join(cur, "/"))
	}
	return w
}

func c03Run(inI interface{}, env *Env) *Failure {
	in := inI.(*c03In)
	env.Count("nontrivial")
	var post *Failure
	run := func() {
		w := c03Build(in.View)
		defer w.cleanup()
		before, err := w.snapshot()
		if err != nil {
			panic(harnessTrouble{"C03 initial snapshot: " + err.Error()})
		}
		kind, arg := in.Slot, ""
		if i := strings.Index(in.Slot, ":"); i > 0 {
			kind, arg = in.Slot[:i], in.Slot[i+1:]
		}
		for _, p := range in.Paths {
			op := FsOp{Kind: kind, Path: p, Data: "written-through-the-view"}
			switch arg {
			case "src":
				// sources that contain the destination (the view root, '.', 'a/..') are
				// self-copies: outside every statement, and unbounded through the stream helpers
				op.Path2 = "zdst/copied"
				if len(clampPath(p)) == 0 {
					continue
				}
			case "dst":
				// the source names are not in the path alphabet: never a copy onto / into itself
				op.Path, op.Path2 = "srcfile", p
				if kind == "CopyDirectory" {
					op.Path = "srcdir"
				}
			}
			segs, climbs := normPath(p)
			r := RunFsOp(w.view, op)
			key := in.View + "/" + in.Slot
			env.Count("operations")
			if climbs {
				env.Count("probe.climbing-paths")
			}
			if r.Panic != "" {
				if strings.Contains(r.Panic, "simrt.Go called outside") {
					panic(harnessTrouble{r.Panic})
				}
				post = failf("C03/panic", key, "%s on view %s panicked: %s", op, in.View, r.Panic)
				return
			}
			// (2) nothing outside is revealed
			leak := func(what string) {
				post = failf("C03/outside-revealed", key, "%s on view %s returned %s", op, in.View, what)
			}
			switch kind {
			case "ReadFile", "Reader":
				if r.Err == nil && strings.Contains(string(r.Data), c03Sentinel) {
					leak(fmt.Sprintf("the bytes of a node outside the view: %q", r.Data))
					return
				}
			case "ReadDir":
				if r.Err == nil {
					for _, n := range infoNames(r.Infos) {
						if strings.Contains(n, "viewOUT") {
							leak(fmt.Sprintf("a listing of a directory outside the view: %v", infoNames(r.Infos)))
							return
						}
					}
				}
			case "IsExist", "IsFile", "IsDir", "Lstat":
				yes := r.Bool
				if kind == "Lstat" {
					yes = r.Err == nil
				}
				_ = segs
				if yes && climbs {
					// true is fine when the path clamped into the root exists there; it reveals
					// an outside node when only the unclamped path exists
					csegs := clampPath(p)
					if !w.inside(strings.Join(csegs, "/")) && w.outside(strings.Split(p, "/")) {
						leak("true/ok for a node that only exists outside the view")
						return
					}
				}
			case "Filespace":
				if r.Err == nil && r.FS != nil && climbs {
					// a view of a climbing path must not list outside directories
					if infos, err := r.FS.ReadDir("."); err == nil {
						for _, n := range infoNames(infos) {
							if strings.Contains(n, "viewOUT") {
								leak(fmt.Sprintf("a child view rooted outside the view (lists %v)", infoNames(infos)))
								return
							}
						}
					}
				}
			}
			// (1) the outside is byte-identical
			after, err := w.snapshot()
			if err != nil {
				post = failf("C03/outside-changed", key, "%s on view %s: outside tree unreadable afterwards: %v", op, in.View, err)
				return
			}
			if d := DiffTrees(after, before); d != "" {
				post = failf("C03/outside-changed", key, "%s on view %s changed the tree outside the view: %s", op, in.View, d)
				return
			}
		}
	}
	if strings.HasPrefix(in.Slot, "Copy") && strings.Contains(in.View, "cache") {
		// cache copies run a real fsloop
		res := env.Sim(SimOpts{MaxSteps: 3000000, FairSteps: 100000, NoRace: true}, run)
		if f := env.SimFailure("C03", res); f != nil {
			return f
		}
	} else {
		run()
	}
	return post
}

// clampPath resolves a path lexically, ".." at the root stays at the root.
func clampPath(p string) []string {
	var segs []string
	for _, s := range strings.Split(p, "/") {
		switch s {
		case "", ".":
		case "..":
			if len(segs) > 0 {
				segs = segs[:len(segs)-1]
			}
		default:
			segs = append(segs, s)
		}
	}
	return segs
}

func c03Shrink(inI interface{}) []interface{} {
	in := inI.(*c03In)
	var out []interface{}
	if len(in.Paths) > 1 {
		h := len(in.Paths) / 2
		out = append(out, &c03In{View: in.View, Slot: in.Slot, Paths: in.Paths[:h]}, &c03In{View: in.View, Slot: in.Slot, Paths: in.Paths[h:]})
		if len(in.Paths) <= 8 {
			for i := range in.Paths {
				out = append(out, &c03In{View: in.View, Slot: in.Slot, Paths: append(append([]string{}, in.Paths[:i]...), in.Paths[i+1:]...)})
			}
		}
	}
	return out
}

func init() {
	sort.Strings(nil)
	register(&Prop{
		ID:         "C03",
		Level:      "exploration",
		GenIndexed: c03GenIndexed,
		SweepSize:  c03SweepSize,
		New:        func() interface{} { return &c03In{} },
		Run:        c03Run,
		Shrink:     c03Shrink,
		Rule: fmt.Sprintf("bounded sweep: %d view kinds x %d operation slots (16 operations, both arguments of the copies) x all %d path strings of 1-3 segments and all 4-segment strings containing '..' over the segments {s,d,view,n,viewOUT,.,..,empty}, with and without leading '/', in chunks of %d per case (run indexes below the sweep size; complete when the run range covers them); random strings of 4-8 segments beyond; each operation is followed by a snapshot comparison of everything outside the view's root (for disk: the host directory above the filespace); non-trivial: every case; distinct = distinct (view, slot, paths)", len(c03ViewKinds), len(c03Slots), len(c03SweepPaths), c03Chunk),
		Real:        []string{"memfs wrapper views", "diskfs root and child views on a private host directory", "encryptfs child views", "fshelper.ROFilespace and SubFS", "fscache child views (SubFS) and its read-only buffer view", "varutil.ReduceAbsPath / CleanPath"},
		Stub:        []string{"none for this property besides sync -> simrt (solo mode; cache copies run as one-off simulations)"},
		Assumptions: []string{"a climbing path may be rejected or resolved (clamped) inside the root; a boolean answer 'true' counts as revealing only when the clamped path does not exist inside and the unclamped path exists outside"},
	})
}
