package simcheck

import (
	"encoding/json"
	"fmt"
	"sort"
	"strings"
	"time"

	"github.com/goatcms/goatcore/filesystem"
	"github.com/goatcms/goatcore/filesystem/filespace/memfs"
	"github.com/goatcms/goatcore/i18n/fsi18loader"
	"github.com/goatcms/goatcore/i18n/i18mem"
	"github.com/goatcms/goatcore/varutil/plainmap"
	"github.com/goatcms/goatcore/workers"
)

// C20 — the loader clause: loading a directory of translation files makes every key of
// every file translatable to its value, whatever the number of files and the scheduling of
// the loader.
//
// Flat string maps with prefix-free dotted keys and values over quotes, backslashes,
// control and non-ASCII characters (no '%': Translate is a Sprintf format by contract) are
// written as JSON files into a random directory layout in a memfs, some through
// encoding/json, some through plainmap.PlainStringMapToJSON, plus decoys with other
// extensions; fsi18loader.Load runs under the seeded scheduler with MaxJob 1-4, ReadDir /
// ReadFile latency and optionally one injected read error.  The reference for every file is
// what the standard JSON decoder yields for the bytes that were written.

type c20File struct {
	Path    string            `json:"path"`
	Values  map[string]string `json:"values"`
	Numbers map[string]string `json:"numbers,omitempty"` // key -> JSON number literal (only for files written by encoding/json)
	Emitter bool              `json:"emitter"`           // written by plainmap.PlainStringMapToJSON
	Raw     int               `json:"raw,omitempty"`     // >0: besides the values, hand-written JSON of this variety is merged in (escapes, other leaf kinds)
}

type c20In struct {
	Files     []c20File `json:"files"`
	Decoys    []string  `json:"decoys,omitempty"`
	EmptyDirs []string  `json:"empty_dirs,omitempty"`
	MaxJob    int       `json:"max_job"`
	LatencyMS []int     `json:"latency_ms,omitempty"`
	FailAt    int       `json:"fail_at"` // position of an injected op-error on the loader's I/O (-1 none)
	Base      string    `json:"base"`
	DecoysFirst bool    `json:"decoys_first,omitempty"` // the files without the .json extension are created before the others (they then come first in a listing)
	Second    bool      `json:"second,omitempty"` // files with an odd index live under "second/" and are loaded by a second Load into the same store
}

var c20Alphabet = []string{"a", "Z", " ", "\"", "\\", "\n", "\t", "\u0001", "é", "日", "/", "{", "}", ":", ",", "'", "\\n", "\\\"", "u00e9"}

func c20Value(r *Rand, tag string) string {
	n := r.Intn(6)
	s := tag
	for i := 0; i < n; i++ {
		s += c20Alphabet[r.Intn(len(c20Alphabet))]
	}
	return s
}

func c20Gen(r *Rand, tier string) interface{} {
	in := &c20In{MaxJob: 1 + r.Intn(4), FailAt: -1, Base: []string{"", "langs/", "./"}[r.Intn(3)]}
	nf := r.Intn(7)
	if tier == "thorough" && r.Chance(1, 10) {
		nf = 7 + r.Intn(20)
	}
	dirs := []string{"", "en/", "en/sub/", "pl/", "deep/a/b/", "odd.json/", "odd.json/inner/"}
	for f := 0; f < nf; f++ {
		base := fmt.Sprintf("f%d", f)
		switch r.Intn(8) {
		case 0:
			base = fmt.Sprintf("en.forms%d", f) // several dots
		case 1:
			base = fmt.Sprintf(".hidden%d", f) // leading dot
		case 2:
			base = fmt.Sprintf("pl_PL.utf8.v%d", f)
		}
		file := c20File{Path: dirs[r.Intn(len(dirs))] + base + ".json", Values: map[string]string{}, Emitter: r.Chance(1, 3)}
		// prefix-free keys: leaves f<f>.k<i> and f<f>.g<i>.x
		nkeys := r.Intn(5)
		if r.Chance(1, 5) {
			nkeys = 20 + r.Intn(60) // big files: size-dependent paths in the store must be reached too
		}
		for k, n := 0, nkeys; k < n; k++ {
			key := fmt.Sprintf("f%d.k%d", f, k)
			if r.Chance(1, 3) {
				key = fmt.Sprintf("f%d.g%d.x", f, k)
			}
			if r.Chance(1, 8) {
				key = fmt.Sprintf("top%d_%d", f, k)
			}
			if r.Chance(1, 8) {
				key = fmt.Sprintf("f%d.deep%d.a.b.c.d", f, k)
			}
			if !file.Emitter && r.Chance(1, 6) {
				if file.Numbers == nil {
					file.Numbers = map[string]string{}
				}
				file.Numbers[key] = []string{"0", "12", "-3.5", "1e3", "1E-2", "123456789012345678901234567890", "-0.0"}[r.Intn(7)]
				continue
			}
			file.Values[key] = c20Value(r, fmt.Sprintf("v%d_%d:", f, k))
		}
		if !file.Emitter && r.Chance(1, 5) {
			file.Raw = 1 + r.Intn(len(c20RawShapes))
		}
		in.Files = append(in.Files, file)
	}
	for k, n := 0, r.Intn(3); k < n; k++ {
		in.Decoys = append(in.Decoys, fmt.Sprintf("%sdecoy%d.%s", dirs[r.Intn(len(dirs))], k, []string{"txt", "jsonx", "json.bak"}[r.Intn(3)]))
	}
	if r.Chance(1, 3) {
		in.EmptyDirs = append(in.EmptyDirs, "empty/dir/")
	}
	for k, n := 0, r.Intn(4); k < n; k++ {
		in.LatencyMS = append(in.LatencyMS, r.Pick(0, 1, 3, 10, 10, 300, 400)) // also far slower than any idle threshold in the loader (simulated time is free; well inside the loop's 2-minute lifetime)
	}
	if r.Chance(1, 6) {
		in.FailAt = r.Intn(2 + 2*nf)
	}
	if in.FailAt < 0 && nf >= 2 && r.Chance(1, 4) {
		in.Second = true
	}
	in.DecoysFirst = r.Bool()
	return in
}

// c20RawShapes: hand-written members (the object key is "raw<f>") with what encoding/json never
// emits by itself: unicode escapes incl. a surrogate pair, escaped solidus, other leaf kinds
// (skipped by the statement), nested empty objects, exponents.
var c20RawShapes = []string{
	`{"esc":"\u00e9\ud83d\ude00x\/y","plain":"p"}`,
	`{"arr":[1,"two",{"k":"v"}],"after":"a"}`,
	`{"nul":null,"t":true,"f":false,"after":"b"}`,
	`{"emp":{},"deep":{"emp2":{}},"after":"c"}`,
	`{"n1":1e2,"n2":-0,"n3":1.50,"n4":12345678901234567890,"s":"\t\b\f\r"}`,
	`{"sp":  "x" ,
	"nl":"y"}`,
}

func c20Nest(flat map[string]string, numbers map[string]string) map[string]interface{} {
	out := map[string]interface{}{}
	all := map[string]interface{}{}
	for k, v := range flat {
		all[k] = v
	}
	for k, v := range numbers {
		all[k] = json.RawMessage(v)
	}
	for k, v := range all {
		parts := strings.Split(k, ".")
		m := out
		for _, p := range parts[:len(parts)-1] {
			next, ok := m[p].(map[string]interface{})
			if !ok {
				next = map[string]interface{}{}
				m[p] = next
			}
			m = next
		}
		m[parts[len(parts)-1]] = v
	}
	return out
}

// c20StdFlatten decodes with the standard decoder and flattens string / number leaves.
func c20StdFlatten(data []byte) (map[string]string, error) {
	dec := json.NewDecoder(strings.NewReader(string(data)))
	dec.UseNumber()
	var doc map[string]interface{}
	if err := dec.Decode(&doc); err != nil {
		return nil, err
	}
	out := map[string]string{}
	var walk func(prefix string, m map[string]interface{})
	walk = func(prefix string, m map[string]interface{}) {
		for k, v := range m {
			key := k
			if prefix != "" {
				key = prefix + "." + k
			}
			switch x := v.(type) {
			case string:
				out[key] = x
			case json.Number:
				out[key] = x.String()
			case map[string]interface{}:
				walk(key, x)
			}
		}
	}
	walk("", doc)
	return out, nil
}

func c20Run(inI interface{}, env *Env) *Failure {
	in := inI.(*c20In)
	var (
		loadErr  error
		expected = map[string]string{}
		got      = map[string]string{}
		missing  []string
		fired    int
		invalid  int
		overrides = map[string]string{}
	)
	res := env.Sim(SimOpts{MaxSteps: 100000, FairSteps: 50000}, func() {
		workers.MaxJob = in.MaxJob
		mem, err := memfs.NewFilespace()
		if err != nil {
			panic(harnessTrouble{err.Error()})
		}
		root := strings.TrimPrefix(in.Base, "./")
		if root != "" {
			if err := mem.MkdirAll(root, filesystem.DefaultUnixDirMode); err != nil {
				panic(harnessTrouble{err.Error()})
			}
		}
		writeDecoys := func() {
			for _, d := range in.Decoys {
				_ = mem.WriteFile(root+d, []byte(`{"decoy":"must not be loaded"}`), filesystem.DefaultUnixFileMode)
			}
		}
		if in.DecoysFirst {
			writeDecoys()
		}
		if in.Second {
			if err := mem.MkdirAll("second", filesystem.DefaultUnixDirMode); err != nil {
				panic(harnessTrouble{err.Error()})
			}
		}
		for fi, f := range in.Files {
			var data []byte
			if f.Emitter {
				s, err := plainmap.PlainStringMapToJSON(f.Values)
				if err != nil {
					invalid++
					continue
				}
				data = []byte(s)
			} else {
				data, _ = json.Marshal(c20Nest(f.Values, f.Numbers))
				if f.Raw > 0 {
					// splice the hand-written member in front of the generated ones
					member := fmt.Sprintf(`"raw%d":%s`, fi, c20RawShapes[(f.Raw-1)%len(c20RawShapes)])
					if string(data) == "{}" {
						data = []byte("{" + member + "}")
					} else {
						data = []byte("{" + member + "," + string(data[1:]))
					}
				}
			}
			std, err := c20StdFlatten(data)
			if err != nil {
				// not valid JSON for the standard decoder (an artefact of the emitter, whose
				// round trip is the pure-function clause): the file is left out
				invalid++
				continue
			}
			froot := root
			if in.Second && fi%2 == 1 {
				froot = "second/"
			}
			if err := mem.WriteFile(froot+f.Path, data, filesystem.DefaultUnixFileMode); err != nil {
				panic(harnessTrouble{err.Error()})
			}
			for k, v := range std {
				expected[k] = v
			}
			if in.Second && fi%2 == 0 && len(std) > 0 {
				overrides[sortedNamesS(std)[0]] = "SECOND-LOAD-VALUE"
			}
		}
		if in.Second && len(overrides) > 0 {
			// the second load also brings new values for keys the first one loaded: every key
			// of every file of a load translates to the value in *that* file afterwards
			data, _ := json.Marshal(c20Nest(overrides, nil))
			if err := mem.WriteFile("second/zz-override.json", data, filesystem.DefaultUnixFileMode); err != nil {
				panic(harnessTrouble{err.Error()})
			}
			for k, v := range overrides {
				expected[k] = v
			}
		}
		if !in.DecoysFirst {
			writeDecoys()
		}
		for _, d := range in.EmptyDirs {
			_ = mem.MkdirAll(root+d, filesystem.DefaultUnixDirMode)
		}
		st := &FaultState{FailAt: map[int]string{}}
		st.OnFire = func(k string) { env.Count("fault." + k); fired++ }
		if in.FailAt >= 0 {
			st.FailAt[in.FailAt] = ""
		}
		calls := 0
		st.Latency = func(op string) time.Duration {
			if len(in.LatencyMS) == 0 {
				return 0
			}
			calls++
			return time.Duration(in.LatencyMS[calls%len(in.LatencyMS)]) * time.Millisecond
		}
		i18 := i18mem.NewI18N()
		// a view may ask for a key before the translations are loaded (it gets an error then);
		// that must not keep the key from being translatable afterwards
		for i, k := range sortedNamesS(expected) {
			if i%5 == 0 {
				_, _ = i18.Translate(k)
			}
		}
		loadErr = fsi18loader.Load(NewFaultFS(mem, st), in.Base, i18, nil)
		if in.Second && loadErr == nil {
			// the store is filled by several loads (one per module directory, say): what the
			// first one loaded must survive the second
			loadErr = fsi18loader.Load(NewFaultFS(mem, st), "second/", i18, nil)
		}
		for _, k := range sortedNamesS(expected) {
			v, err := i18.Translate(k)
			if err != nil {
				missing = append(missing, k)
				continue
			}
			got[k] = v
		}
		if _, err := i18.Translate("decoy"); err == nil {
			got["decoy"] = "loaded"
		}
	})
	if len(in.Files) > 0 && res.Decisions > 0 {
		env.Count("nontrivial")
	}
	if invalid > 0 {
		env.CountN("probe.files-not-judged:not valid JSON for the standard decoder", invalid)
	}
	if f := env.SimFailure("C20", res); f != nil {
		return f
	}
	if len(res.Races) > 0 {
		rc := res.Races[0]
		return failf("C20/map-race", fmt.Sprintf("%s|%s", siteName(rc.Site1), siteName(rc.Site2)), "unsynchronised %s access to %s: %s vs %s", rc.Kind, rc.MapLabel, siteName(rc.Site1), siteName(rc.Site2))
	}
	if fired == 0 && loadErr != nil {
		return failf("C20/load-failed", "", "Load failed without an injected fault: %v", loadErr)
	}
	if _, ok := got["decoy"]; ok {
		return failf("C20/decoy-loaded", "", "a file without the .json extension was loaded")
	}
	if loadErr != nil {
		return nil // a fired fault was reported: nothing else is promised
	}
	if len(missing) > 0 {
		sort.Strings(missing)
		return failf("C20/key-not-loaded", fmt.Sprintf("faulted=%v", fired > 0), "Load returned nil (faults fired: %d) but %d keys are not translatable, e.g. %q", fired, len(missing), missing[0])
	}
	for _, k := range sortedNamesS(expected) {
		if got[k] != expected[k] {
			return failf("C20/wrong-value", "", "key %q translates to %q, the standard JSON decoder yields %q for the file", k, got[k], expected[k])
		}
	}
	return nil
}

func c20Shrink(inI interface{}) []interface{} {
	in := inI.(*c20In)
	var out []interface{}
	cp := func() *c20In {
		c := *in
		c.Files = nil
		for _, f := range in.Files {
			nf := c20File{Path: f.Path, Emitter: f.Emitter, Raw: f.Raw, Values: map[string]string{}}
			for k, v := range f.Values {
				nf.Values[k] = v
			}
			for k, v := range f.Numbers {
				if nf.Numbers == nil {
					nf.Numbers = map[string]string{}
				}
				nf.Numbers[k] = v
			}
			c.Files = append(c.Files, nf)
		}
		c.Decoys = append([]string(nil), in.Decoys...)
		c.LatencyMS = append([]int(nil), in.LatencyMS...)
		return &c
	}
	for i := range in.Files {
		c := cp()
		c.Files = append(c.Files[:i], c.Files[i+1:]...)
		out = append(out, c)
	}
	for i, f := range in.Files {
		for _, k := range sortedNamesS(f.Values) {
			c := cp()
			delete(c.Files[i].Values, k)
			out = append(out, c)
		}
		for _, k := range sortedNamesS(f.Values) {
			if v := f.Values[k]; len(v) > 1 {
				c := cp()
				c.Files[i].Values[k] = v[:len(v)/2]
				out = append(out, c)
				c2 := cp()
				c2.Files[i].Values[k] = v[len(v)/2:]
				out = append(out, c2)
			}
		}
		if f.Emitter {
			c := cp()
			c.Files[i].Emitter = false
			out = append(out, c)
		}
		for _, k := range sortedNamesS(f.Numbers) {
			c := cp()
			delete(c.Files[i].Numbers, k)
			out = append(out, c)
		}
	}
	if len(in.Decoys) > 0 {
		c := cp()
		c.Decoys = nil
		out = append(out, c)
	}
	if len(in.LatencyMS) > 0 {
		c := cp()
		c.LatencyMS = nil
		out = append(out, c)
	}
	if in.MaxJob > 1 {
		c := cp()
		c.MaxJob--
		out = append(out, c)
	}
	return out
}

func init() {
	register(&Prop{
		ID:     "C20",
		Level:  "exploration",
		Gen:    c20Gen,
		New:    func() interface{} { return &c20In{} },
		Run:    c20Run,
		Shrink: c20Shrink,
		Rule: "one case = 0-6 translation files (thorough: up to 26) in a random directory layout of a memfs, prefix-free dotted keys distinct across files, values over quotes, backslashes, control and non-ASCII characters and escape look-alikes, written by encoding/json or by the library's own emitter, decoys with other extensions, empty directories, MaxJob 1-4, ReadDir/ReadFile latency, optionally one injected I/O error x one seeded schedule of the loader's fsloop; reference = the standard JSON decoder on the written bytes; " +
			"non-trivial = at least one file and a scheduling decision with more than one runnable task; distinct = distinct (input, decision sequence)",
		Real:        []string{"i18n/fsi18loader.Load", "i18n/i18mem", "filesystem/fsloop + workers/jobsync", "varutil/plainmap (JSONToPlainStringMap on the loader path; PlainStringMapToJSON as one of the two file writers)", "github.com/buger/jsonparser", "memfs"},
		Stub:        []string{"FaultFS (latency, one op-error)", "sync primitives, scheduler, clock (simrt)"},
		Assumptions: []string{"only the loader clause of C20 is claimed; flatten/rebuild and emitter round trips are pure functions (DESIGN.md section 5). A file the standard decoder rejects is not judged.", "values contain no '%' (Translate treats the value as a Sprintf format)"},
	})
}
