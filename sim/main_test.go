package simcheck

import (
	"sync/atomic"
	"runtime"
	"encoding/binary"
	"encoding/json"
	"fmt"
	"os"
	"path/filepath"
	"sort"
	"strconv"
	"testing"
	"time"
)

// The test binary is the worker process of bin/check.  Modes (SIM_MODE):
//
//	run     explore runs FROM, FROM+STRIDE, ... < TO of property SIM_PROP
//	replay  re-execute the replay file SIM_REPLAY strictly
//	list    print the registered property ids
func TestSim(t *testing.T) {
	mode := os.Getenv("SIM_MODE")
	if mode == "" {
		t.Skip("SIM_MODE not set")
	}
	loadFindings(os.Getenv("SIM_FINDINGS"))
	loadSites(os.Getenv("SIM_SITES"))
	switch mode {
	case "list":
		ids := []string{}
		for id := range props {
			ids = append(ids, id)
		}
		sort.Strings(ids)
		for _, id := range ids {
			fmt.Println(id)
		}
	case "run":
		workerRun(t)
	case "replay":
		workerReplay(t)
	case "hashes":
		workerHashes(t)
	default:
		fmt.Println("unknown SIM_MODE")
		os.Exit(2)
	}
}

func envInt(name string, def int) int {
	if v := os.Getenv(name); v != "" {
		n, err := strconv.Atoi(v)
		if err != nil {
			fmt.Println("bad", name)
			os.Exit(2)
		}
		return n
	}
	return def
}

func envU64(name string, def uint64) uint64 {
	if v := os.Getenv(name); v != "" {
		n, err := strconv.ParseUint(v, 10, 64)
		if err != nil {
			// negative seeds are folded
			m, err2 := strconv.ParseInt(v, 10, 64)
			if err2 != nil {
				fmt.Println("bad", name)
				os.Exit(2)
			}
			return uint64(m)
		}
		return n
	}
	return def
}

type failureOut struct {
	Replay string `json:"replay"`
	Clause string `json:"clause"`
	Key    string `json:"key"`
	Msg    string `json:"msg"`
	Index  int    `json:"index"`
	Hash   uint64 `json:"hash"`
	Count  int    `json:"count"`
}

type workerOut struct {
	Property    string            `json:"property"`
	Worker      int               `json:"worker"`
	Runs        int               `json:"runs"`
	NonTrivial  int               `json:"nontrivial"`
	Distinct    int               `json:"distinct"`
	Steps       int               `json:"steps"`
	Decisions   int               `json:"decisions"`
	Switches    int               `json:"switches"`
	Sims        int               `json:"sims"`
	SimTimeMS   int64             `json:"sim_time_ms"`
	WallS       float64           `json:"wall_s"`
	Counters    map[string]int    `json:"counters"`
	Failures    []failureOut      `json:"failures"`
	FailTotal   int               `json:"fail_total"`
	Known       map[string]string `json:"known"`
	Samples     []json.RawMessage `json:"samples"`
	Trouble     string            `json:"trouble,omitempty"`
	SitePairs   int               `json:"site_pairs"`
	SweepCases  int               `json:"sweep_cases"`
	Exhausted   bool              `json:"exhausted"` // all indexes of the range were executed
	HashFile    string            `json:"hash_file"`
	LastIndex   int               `json:"last_index"`
	Recycle     bool              `json:"recycle,omitempty"` // stopped because the process grew past SIM_RECYCLE_MB; the driver continues at NextIndex in a fresh process
	NextIndex   int               `json:"next_index,omitempty"`
	Real        []string          `json:"real"`
	Stub        []string          `json:"stub"`
	Rule        string            `json:"rule"`
	Assumptions []string          `json:"assumptions"`
	Level       string            `json:"level"`
}

type wallCase struct {
	index int
	seed  uint64
	meta  caseMeta
	input []byte
	start time.Time
}

func genInput(p *Prop, i int, r *Rand, tier string) interface{} {
	if p.GenIndexed != nil {
		return p.GenIndexed(i, r, tier)
	}
	return p.Gen(r, tier)
}

func genMeta(r *Rand) caseMeta {
	m := caseMeta{SwitchDen: r.Pick(1, 1, 2, 4, 10, 30), ArmSeed: r.Uint64()}
	m.ArmPct = r.Pick(0, 0, 0, 5, 20, 50)
	if r.Chance(1, 4) {
		m.PCTDen = r.Pick(5, 20, 100, 1000)
	}
	return m
}

func workerRun(t *testing.T) {
	id := os.Getenv("SIM_PROP")
	p := props[id]
	if p == nil {
		fmt.Println("unknown property", id)
		os.Exit(2)
	}
	tier := os.Getenv("SIM_TIER")
	if tier == "" {
		tier = "quick"
	}
	vseed := envU64("VERIF_SEED", 1)
	from, to, stride := envInt("SIM_FROM", 0), envInt("SIM_TO", 100), envInt("SIM_STRIDE", 1)
	budget := time.Duration(envInt("SIM_BUDGET_S", 30)) * time.Second
	outPath := os.Getenv("SIM_OUT")
	replayDir := os.Getenv("SIM_REPLAY_DIR")
	worker := envInt("SIM_WORKER", 0)
	start := time.Now()
	out := workerOut{Property: id, Worker: worker, Counters: map[string]int{}, Known: map[string]string{},
		Real: p.Real, Stub: p.Stub, Rule: p.Rule, Assumptions: p.Assumptions, Level: p.Level}
	distinct := map[uint64]struct{}{}
	seenFail := map[string]int{}
	shrinks := 0
	finish := func() {
		out.WallS = time.Since(start).Seconds()
		out.Distinct = len(distinct)
		out.SitePairs = len(pairSeen)
		if outPath != "" {
			hf := outPath + ".hashes"
			buf := make([]byte, 0, 8*len(distinct))
			n := 0
			for h := range distinct {
				if n >= 200000 {
					break
				}
				buf = binary.LittleEndian.AppendUint64(buf, h)
				n++
			}
			_ = os.WriteFile(hf, buf, 0o644)
			out.HashFile = hf
			_ = os.WriteFile(outPath, mustJSON(out), 0o644)
		} else {
			fmt.Println(string(mustJSON(out)))
		}
	}
	defer finish()

	if worker == 0 && p.Sweep != nil && os.Getenv("SIM_SKIP_SWEEP") == "" {
		env := &Env{T: t, ch: &chooser{mode: modeGen, rng: NewRand(vseed), switchDen: 1}, Tier: tier, Counters: map[string]int{}, stats: &runStats{}, KnownHit: map[string]string{}, known: knownLookup(p.ID)}
		func() {
			defer func() {
				if r := recover(); r != nil {
					if ht, ok := r.(harnessTrouble); ok {
						out.Trouble = ht.msg
						return
					}
					panic(r)
				}
			}()
			n, f := p.Sweep(env, tier)
			out.SweepCases = n
			for k, v := range env.Counters {
				out.Counters[k] += v
			}
			for k, v := range env.KnownHit {
				out.Known[k] = v
			}
			if f != nil {
				out.FailTotal++
				out.Failures = append(out.Failures, failureOut{Clause: f.Clause, Key: f.Key, Msg: f.Msg, Index: -1, Count: 1})
			}
		}()
		if out.Trouble != "" {
			return
		}
	}

	// goroutines a run leaves blocked in real channel operations (with everything they
	// reference) cannot be released; the process is recycled before that adds up
	recycleMB := uint64(envInt("SIM_RECYCLE_MB", 1500))
	// per-case wall-clock watchdog: a case normally takes milliseconds to seconds. One that
	// has not come back after SIM_CASE_WALL_S seconds sits in a loop that never reaches a
	// scheduling point (the step budget cannot see it). The goroutine cannot be stopped, so
	// the watchdog records the case as a failure, writes the worker's result and ends the
	// process; the driver continues with a fresh process at the next index.
	caseWall := time.Duration(envInt("SIM_CASE_WALL_S", 180)) * time.Second
	var cur atomic.Pointer[wallCase]
	go func() {
		for {
			time.Sleep(time.Second)
			c := cur.Load()
			if c == nil || time.Since(c.start) < caseWall {
				continue
			}
			f := &Failure{Clause: id + "/no-termination", Key: "wall-clock", Msg: fmt.Sprintf("the case did not come back within %v of wall-clock time (no scheduling point reached: the step budget cannot end it)", caseWall)}
			rp := Replay{Property: id, VerifSeed: vseed, Index: c.index, Seed: c.seed, Tier: tier, Meta: c.meta, Input: c.input, Clause: f.Clause, Key: f.Key, Msg: f.Msg, Hash: strHash(f.Clause), WallClock: true}
			path := ""
			if replayDir != "" {
				_ = os.MkdirAll(replayDir, 0o755)
				path = filepath.Join(replayDir, fmt.Sprintf("%s-%d-%d.json", id, vseed, c.index))
				b, _ := json.MarshalIndent(rp, "", " ")
				_ = os.WriteFile(path, b, 0o644)
			}
			out.Runs++
			out.FailTotal++
			out.Failures = append(out.Failures, failureOut{Replay: path, Clause: f.Clause, Key: f.Key, Msg: f.Msg, Index: c.index, Hash: rp.Hash, Count: 1})
			out.Recycle, out.NextIndex = true, c.index+stride
			finish()
			os.Exit(0)
		}
	}()
	i := from
	for n := 0; i < to; i, n = i+stride, n+1 {
		if time.Since(start) > budget {
			break
		}
		if n%64 == 63 {
			var ms runtime.MemStats
			runtime.ReadMemStats(&ms)
			if ms.Sys>>20 > recycleMB {
				out.Recycle, out.NextIndex = true, i
				return
			}
		}
		seed := RunSeed(vseed, id, i)
		gr := NewRand(seed)
		meta := genMeta(gr)
		in := genInput(p, i, gr, tier)
		ch := &chooser{mode: modeGen, rng: NewRand(mix(seed, 0x5eed)), switchDen: meta.SwitchDen, pctDen: meta.PCTDen}
		inJSON := mustJSON(in)
		cur.Store(&wallCase{index: i, seed: seed, meta: meta, input: inJSON, start: time.Now()})
		cr := execCase(t, p, in, meta, ch, tier, false)
		cur.Store(nil)
		out.Runs++
		out.LastIndex = i
		if cr.trouble != "" {
			out.Trouble = fmt.Sprintf("run %d (seed %d): %s", i, seed, cr.trouble)
			return
		}
		out.Steps += cr.stats.steps
		out.Decisions += cr.stats.decisions
		out.Switches += cr.stats.switches
		out.Sims += cr.stats.sims
		out.SimTimeMS += cr.simTime.Milliseconds()
		for k, v := range cr.counters {
			out.Counters[k] += v
		}
		for k, v := range cr.knownHit {
			out.Known[k] = v
		}
		if cr.counters["nontrivial"] > 0 {
			out.NonTrivial++
			distinct[mix(strHash(string(inJSON)), cr.stats.schedHash)] = struct{}{}
		}
		if len(out.Samples) < 2 && cr.counters["nontrivial"] > 0 {
			s := map[string]interface{}{"index": i, "seed": seed, "input": json.RawMessage(inJSON), "steps": cr.stats.steps, "decisions": cr.stats.decisions, "outcome": "ok"}
			if cr.fail != nil {
				s["outcome"] = cr.fail.Clause
			}
			out.Samples = append(out.Samples, mustJSON(s))
		}
		if cr.fail != nil {
			out.FailTotal++
			fk := cr.fail.Clause + "|" + cr.fail.Key
			seenFail[fk]++
			if seenFail[fk] > 1 || shrinks >= 3 {
				for j := range out.Failures {
					if out.Failures[j].Clause+"|"+out.Failures[j].Key == fk {
						out.Failures[j].Count++
					}
				}
				if shrinks >= 3 && seenFail[fk] == 1 {
					// report unshrunk so that nothing is lost
					out.Failures = append(out.Failures, writeReplay(p, replayDir, vseed, i, seed, tier, meta, in, cr, shrinkInfo{}))
				}
				continue
			}
			shrinks++
			before := len(cr.choices.Sched)
			in2, meta2, cr2, execs := shrinkCase(t, p, cloneInput(p, in), meta, cr, tier)
			if os.Getenv("SIM_DEBUG_SHRINK") != "" {
				a := execCase(t, p, cloneInput(p, in2), meta2, &chooser{mode: modeStrict, in: cr2.choices}, tier, true)
				b := execCase(t, p, cloneInput(p, in2), meta2, &chooser{mode: modeStrict, in: cr2.choices}, tier, true)
				fmt.Printf("DEBUG shrink: recorded hash %x, strict re-exec %x / %x diverged=%q\n", cr2.hash, a.hash, b.hash, a.diverged)
			}
			info := shrinkInfo{Execs: execs, SchedBefore: before, SchedAfter: len(cr2.choices.Sched), InputBefore: len(inJSON), InputAfter: len(mustJSON(in2))}
			fo := writeReplay(p, replayDir, vseed, i, seed, tier, meta2, in2, cr2, info)
			seenFail[fo.Clause+"|"+fo.Key]++
			out.Failures = append(out.Failures, fo)
		}
	}
	out.Exhausted = i >= to
}

func writeReplay(p *Prop, dir string, vseed uint64, index int, seed uint64, tier string, meta caseMeta, in interface{}, cr caseResult, info shrinkInfo) failureOut {
	// final strict-able record: re-execute loosely once more with logging to get the trace
	rp := Replay{Property: p.ID, VerifSeed: vseed, Index: index, Seed: seed, Tier: tier, Meta: meta, Input: mustJSON(in),
		Choices: cr.choices, Clause: cr.fail.Clause, Key: cr.fail.Key, Msg: cr.fail.Msg, Hash: cr.hash, Shrunk: info}
	path := ""
	if dir != "" {
		_ = os.MkdirAll(dir, 0o755)
		path = filepath.Join(dir, fmt.Sprintf("%s-%d-%d.json", p.ID, vseed, index))
		b, _ := json.MarshalIndent(rp, "", " ")
		if err := os.WriteFile(path, b, 0o644); err != nil {
			panic(err)
		}
	}
	return failureOut{Replay: path, Clause: cr.fail.Clause, Key: cr.fail.Key, Msg: cr.fail.Msg, Index: index, Hash: cr.hash, Count: 1}
}

type replayOut struct {
	Property string   `json:"property"`
	Failed   bool     `json:"failed"`
	Clause   string   `json:"clause"`
	Key      string   `json:"key"`
	Msg      string   `json:"msg"`
	Hash     uint64   `json:"hash"`
	Same     bool     `json:"same"` // same clause and same event-log hash as recorded
	Diverged string   `json:"diverged,omitempty"`
	Trouble  string   `json:"trouble,omitempty"`
	Trace    []string `json:"trace,omitempty"`
}

func workerReplay(t *testing.T) {
	path := os.Getenv("SIM_REPLAY")
	b, err := os.ReadFile(path)
	if err != nil {
		fmt.Println("cannot read replay file:", err)
		os.Exit(2)
	}
	var rp Replay
	if err := json.Unmarshal(b, &rp); err != nil {
		fmt.Println("bad replay file:", err)
		os.Exit(2)
	}
	p := props[rp.Property]
	if p == nil {
		fmt.Println("unknown property", rp.Property)
		os.Exit(2)
	}
	in := p.New()
	if err := json.Unmarshal(rp.Input, in); err != nil {
		fmt.Println("bad replay input:", err)
		os.Exit(2)
	}
	ch := &chooser{mode: modeStrict, in: rp.Choices}
	if os.Getenv("SIM_LOOSE") != "" {
		ch.mode = modeLoose
	}
	if rp.WallClock {
		// no recorded choices: the case is run again from its seed, under the same watchdog
		ch = &chooser{mode: modeGen, rng: NewRand(mix(rp.Seed, 0x5eed)), switchDen: rp.Meta.SwitchDen, pctDen: rp.Meta.PCTDen}
		caseWall := time.Duration(envInt("SIM_CASE_WALL_S", 180)) * time.Second
		go func() {
			time.Sleep(caseWall)
			out := replayOut{Property: rp.Property, Failed: true, Clause: rp.Clause, Key: rp.Key, Msg: rp.Msg, Hash: rp.Hash, Same: true}
			if op := os.Getenv("SIM_OUT"); op != "" {
				_ = os.WriteFile(op, mustJSON(out), 0o644)
			} else {
				fmt.Println(string(mustJSON(out)))
			}
			os.Exit(0)
		}()
	}
	cr := execCase(t, p, in, rp.Meta, ch, rp.Tier, os.Getenv("SIM_NOLOG") == "" && !rp.WallClock)
	out := replayOut{Property: rp.Property, Hash: cr.hash, Diverged: cr.diverged, Trouble: cr.trouble}
	if cr.fail != nil {
		out.Failed = true
		out.Clause, out.Key, out.Msg = cr.fail.Clause, cr.fail.Key, cr.fail.Msg
	}
	out.Same = out.Failed && out.Clause == rp.Clause && cr.hash == rp.Hash && cr.diverged == ""
	if os.Getenv("SIM_TRACE") != "" {
		for si, lg := range cr.logs {
			for _, e := range lg {
				out.Trace = append(out.Trace, fmt.Sprintf("sim%d step%d task%d %s %s", si, e.Step, e.Task, whyName(e.Why), siteName(e.Site)))
			}
		}
	}
	if op := os.Getenv("SIM_OUT"); op != "" {
		_ = os.WriteFile(op, mustJSON(out), 0o644)
	} else {
		fmt.Println(string(mustJSON(out)))
	}
}

func whyName(w int) string {
	names := []string{"start", "yield", "gosched", "lock", "unlock", "chan", "post", "site", "wake"}
	if w >= 0 && w < len(names) {
		return names[w]
	}
	return "?"
}

// workerHashes prints, for runs FROM..TO of a property, the hash of the complete event log
// (every scheduling step with task, site and reason) and the outcome; the determinism
// self-test diffs this output between processes and GOMAXPROCS settings.
func workerHashes(t *testing.T) {
	id := os.Getenv("SIM_PROP")
	p := props[id]
	if p == nil {
		fmt.Println("unknown property", id)
		os.Exit(2)
	}
	tier := os.Getenv("SIM_TIER")
	if tier == "" {
		tier = "quick"
	}
	vseed := envU64("VERIF_SEED", 1)
	from, to := envInt("SIM_FROM", 0), envInt("SIM_TO", 32)
	var lines []string
	for rep := 0; rep < envInt("SIM_REPEAT", 1); rep++ {
	for i := from; i < to; i++ {
		seed := RunSeed(vseed, id, i)
		gr := NewRand(seed)
		meta := genMeta(gr)
		in := genInput(p, i, gr, tier)
		ch := &chooser{mode: modeGen, rng: NewRand(mix(seed, 0x5eed)), switchDen: meta.SwitchDen, pctDen: meta.PCTDen}
		cr := execCase(t, p, in, meta, ch, tier, os.Getenv("SIM_DUMPLOG") != "")
		if os.Getenv("SIM_DUMPLOG") != "" {
			fmt.Println("INPUT", string(mustJSON(in)))
			for si, lg := range cr.logs {
				for _, e := range lg {
					fmt.Printf("LOG sim%d step%d task%d %s %s\n", si, e.Step, e.Task, whyName(e.Why), siteName(e.Site))
				}
			}
		}
		outcome := "ok"
		if cr.fail != nil {
			outcome = cr.fail.Clause
		}
		if cr.trouble != "" {
			outcome = "TROUBLE " + cr.trouble
		}
		lines = append(lines, fmt.Sprintf("%s %d %016x steps=%d sched=%d draws=%d %s", id, i, cr.hash, cr.stats.steps, len(cr.choices.Sched), len(cr.choices.Draws), outcome))
	}
	}
	out := ""
	for _, l := range lines {
		out += l + "\n"
	}
	if op := os.Getenv("SIM_OUT"); op != "" {
		_ = os.WriteFile(op, []byte(out), 0o644)
	} else {
		fmt.Print(out)
	}
}
