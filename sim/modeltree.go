package simcheck

import (
	"bytes"
	"fmt"
	"io"
	"os"
	"sort"
	"strings"

	"github.com/goatcms/goatcore/filesystem"
	"simrt"
)

// ModelTree is the reference model shared by the filespace properties (C01-C07, C09): a
// tree of named nodes.  It is deliberately partial: for every operation it says whether
// the property fixes the outcome (must succeed / must fail) or leaves it open ("either":
// clean failure without any change, or the natural success).  It is written from the
// property text; it mirrors no implementation constant and no error text.

type mnode struct {
	dir  bool
	data []byte
	kids map[string]*mnode
}

func newDir() *mnode { return &mnode{dir: true, kids: map[string]*mnode{}} }

func (n *mnode) clone() *mnode {
	c := &mnode{dir: n.dir}
	if n.dir {
		c.kids = map[string]*mnode{}
		for k, v := range n.kids {
			c.kids[k] = v.clone()
		}
	} else {
		c.data = append([]byte(nil), n.data...)
	}
	return c
}

type ModelTree struct{ root *mnode }

func NewModelTree() *ModelTree { return &ModelTree{root: newDir()} }

func (m *ModelTree) Clone() *ModelTree { return &ModelTree{root: m.root.clone()} }

// normPath is the model's own lexical normaliser: split on '/', drop "" and ".", ".."
// pops; popping at the root is "climbs above the root".
func normPath(p string) (segs []string, climbs bool) {
	for _, s := range strings.Split(p, "/") {
		switch s {
		case "", ".":
		case "..":
			if len(segs) == 0 {
				return nil, true
			}
			segs = segs[:len(segs)-1]
		default:
			segs = append(segs, s)
		}
	}
	return segs, false
}

func (m *ModelTree) lookup(segs []string) *mnode {
	n := m.root
	for _, s := range segs {
		if n == nil || !n.dir {
			return nil
		}
		n = n.kids[s]
	}
	return n
}

// parentOf returns the parent directory node of segs (nil if missing or not a directory).
func (m *ModelTree) parentOf(segs []string) *mnode {
	if len(segs) == 0 {
		return nil
	}
	p := m.lookup(segs[:len(segs)-1])
	if p == nil || !p.dir {
		return nil
	}
	return p
}

// fileOnPath reports whether some proper prefix of segs is a file (so nothing below it can exist or be created).
func (m *ModelTree) fileOnPath(segs []string) bool {
	n := m.root
	for _, s := range segs[:max(0, len(segs)-1)] {
		n = n.kids[s]
		if n == nil {
			return false
		}
		if !n.dir {
			return true
		}
	}
	return false
}

func (m *ModelTree) mkdirs(segs []string) *mnode {
	n := m.root
	for _, s := range segs {
		c := n.kids[s]
		if c == nil {
			c = newDir()
			n.kids[s] = c
		}
		n = c
	}
	return n
}

// Flatten renders the tree as path -> "D" or "F:<content>".
func (m *ModelTree) Flatten() map[string]string {
	out := map[string]string{}
	var walk func(prefix string, n *mnode)
	walk = func(prefix string, n *mnode) {
		for name, c := range n.kids {
			p := name
			if prefix != "" {
				p = prefix + "/" + name
			}
			if c.dir {
				out[p] = "D"
				walk(p, c)
			} else {
				out[p] = "F:" + string(c.data)
			}
		}
	}
	walk("", m.root)
	return out
}

// ---------------------------------------------------------------------------------
// operations

type FsOp struct {
	Kind   string `json:"kind"`
	Path   string `json:"path"`
	Path2  string `json:"path2,omitempty"`
	Data   string `json:"data,omitempty"`
	Big    int    `json:"big,omitempty"` // > 0: the content is Data+"|" repeated up to this many bytes (sizes past every threshold)
	Bin    bool   `json:"bin,omitempty"`  // with Big: Data followed by the bytes 0xFF, 0xFE, ... 0x00 repeated (every byte value, invalid UTF-8)
	Zero   bool   `json:"zero,omitempty"` // with Big: the content is Data followed by zero bytes up to Big bytes in all (all-zero blocks, a zero tail ending on a block boundary)
	Chunks []int  `json:"chunks,omitempty"` // Writer: chunk lengths (0 allowed); Reader: buffer sizes
	View   int    `json:"view,omitempty"`   // index into the views created so far (0 = root)
	Ref    int    `json:"ref,omitempty"`    // pseudo-operations: which earlier result/buffer
}

// Content is the byte content a write operation stores.
func (o FsOp) Content() []byte {
	if o.Big <= 0 {
		return []byte(o.Data)
	}
	if o.Bin {
		out := append([]byte(o.Data), make([]byte, max(0, o.Big-len(o.Data)))...)
		for i := len(o.Data); i < len(out); i++ {
			out[i] = byte(255 - (i-len(o.Data))%256)
		}
		return out
	}
	if o.Zero {
		// Big bytes in all: the data, then zeros up to a whole number of 4096-byte blocks
		if len(o.Data) >= o.Big {
			return []byte(o.Data)
		}
		return append([]byte(o.Data), make([]byte, o.Big-len(o.Data))...)
	}
	unit := o.Data + "|"
	return []byte(strings.Repeat(unit, o.Big/len(unit)+1)[:o.Big])
}

func (o FsOp) String() string {
	s := fmt.Sprintf("v%d.%s(%q", o.View, o.Kind, o.Path)
	if o.Path2 != "" {
		s += fmt.Sprintf(",%q", o.Path2)
	}
	if o.Data != "" || o.Kind == "WriteFile" || o.Kind == "Writer" {
		s += fmt.Sprintf(",%q", o.Data)
		if o.Big > 0 {
			s += fmt.Sprintf("x%dB", o.Big)
			if o.Zero {
				s += "(zeros)"
			}
			if o.Bin {
				s += "(every byte value)"
			}
		}
	}
	return s + ")"
}

// Outcome classes.
const (
	MustOK   = "ok"
	MustFail = "fail"
	Either   = "either" // the property does not fix it: clean failure (no change) or natural success
)

// Expect is the model's verdict for one operation.
type Expect struct {
	Outcome string
	Bool    bool              // boolean queries
	Data    []byte            // reads
	Names   map[string]bool   // listings: name -> isDir
	IsDir   bool              // Lstat
	Name    string            // Lstat
	Size    int               // Lstat of a file
	apply   func()            // natural effect, run when the implementation succeeded
	Why     string            // which unspecified case, for the evidence assumptions
}

// Expectation computes the verdict for op issued through a view rooted at prefix.
func (m *ModelTree) Expectation(prefix []string, op FsOp) Expect {
	rel, climbs := normPath(op.Path)
	if climbs {
		return Expect{Outcome: Either, Why: "path climbs above the view root (judged by C03)"}
	}
	segs := append(append([]string{}, prefix...), rel...)
	n := m.lookup(segs)
	switch op.Kind {
	case "IsExist":
		return Expect{Outcome: MustOK, Bool: n != nil}
	case "IsFile":
		return Expect{Outcome: MustOK, Bool: n != nil && !n.dir}
	case "IsDir":
		return Expect{Outcome: MustOK, Bool: n != nil && n.dir}
	case "ReadFile", "Reader":
		if n == nil || n.dir {
			return Expect{Outcome: MustFail}
		}
		return Expect{Outcome: MustOK, Data: n.data}
	case "ReadDir":
		if n == nil || !n.dir {
			return Expect{Outcome: MustFail}
		}
		names := map[string]bool{}
		for k, c := range n.kids {
			names[k] = c.dir
		}
		return Expect{Outcome: MustOK, Names: names}
	case "Lstat":
		if n == nil {
			return Expect{Outcome: MustFail}
		}
		e := Expect{Outcome: MustOK, IsDir: n.dir, Size: len(n.data)}
		if len(segs) > 0 {
			e.Name = segs[len(segs)-1]
		}
		return e
	case "MkdirAll":
		if m.fileOnPath(append(segs, "x")) || (n != nil && !n.dir) {
			return Expect{Outcome: MustFail}
		}
		return Expect{Outcome: MustOK, apply: func() { m.mkdirs(segs) }}
	case "WriteFile", "Writer":
		data := op.Content()
		if len(segs) == 0 {
			return Expect{Outcome: MustFail}
		}
		if m.fileOnPath(segs) {
			return Expect{Outcome: MustFail}
		}
		if n != nil && n.dir {
			return Expect{Outcome: MustFail}
		}
		return Expect{Outcome: MustOK, apply: func() {
			p := m.mkdirs(segs[:len(segs)-1])
			p.kids[segs[len(segs)-1]] = &mnode{data: append([]byte(nil), data...)}
		}}
	case "Remove":
		if len(segs) == 0 {
			return Expect{Outcome: Either, Why: "remove of the root"}
		}
		if n == nil {
			return Expect{Outcome: MustFail}
		}
		if n.dir && len(n.kids) > 0 {
			return Expect{Outcome: MustFail}
		}
		return Expect{Outcome: MustOK, apply: func() { delete(m.parentOf(segs).kids, segs[len(segs)-1]) }}
	case "RemoveAll":
		if len(segs) == 0 {
			return Expect{Outcome: Either, Why: "recursive remove of the root"}
		}
		if n == nil {
			return Expect{Outcome: Either, Why: "recursive remove of a missing node (error or no-op)", apply: func() {}}
		}
		return Expect{Outcome: MustOK, apply: func() { delete(m.parentOf(segs).kids, segs[len(segs)-1]) }}
	case "Copy", "CopyFile", "CopyDirectory":
		rel2, climbs2 := normPath(op.Path2)
		if climbs2 {
			return Expect{Outcome: Either, Why: "path climbs above the view root (judged by C03)"}
		}
		dst := append(append([]string{}, prefix...), rel2...)
		if n == nil {
			return Expect{Outcome: MustFail}
		}
		if op.Kind == "CopyFile" && n.dir {
			return Expect{Outcome: MustFail}
		}
		if op.Kind == "CopyDirectory" && !n.dir {
			return Expect{Outcome: MustFail}
		}
		if len(dst) == 0 || len(segs) == 0 {
			return Expect{Outcome: Either, Why: "copy from/onto the root"}
		}
		if m.fileOnPath(dst) {
			return Expect{Outcome: MustFail}
		}
		apply := func() {
			c := n.clone()
			p := m.mkdirs(dst[:len(dst)-1])
			p.kids[dst[len(dst)-1]] = c
		}
		if hasPrefix(dst, segs) {
			return Expect{Outcome: Either, Why: "copy of a directory into itself", apply: nil}
		}
		if m.lookup(dst) != nil {
			return Expect{Outcome: Either, Why: "copy onto an existing destination", apply: nil}
		}
		if m.parentOf(dst) == nil {
			return Expect{Outcome: Either, Why: "copy to a destination whose parent does not exist", apply: apply}
		}
		return Expect{Outcome: MustOK, apply: apply}
	}
	panic("model: unknown operation " + op.Kind)
}

func hasPrefix(p, prefix []string) bool {
	if len(prefix) > len(p) {
		return false
	}
	for i := range prefix {
		if p[i] != prefix[i] {
			return false
		}
	}
	return true
}

// ---------------------------------------------------------------------------------
// running an operation against an implementation

// FsResult is what the implementation answered.
type FsResult struct {
	Err   error
	Panic string
	Bool  bool
	Data  []byte
	Infos []os.FileInfo
	Info  os.FileInfo
	FS    filesystem.Filespace
}

// RunFsOp executes op on fs, recovering panics.
func RunFsOp(fs filesystem.Filespace, op FsOp) (r FsResult) {
	defer func() {
		if p := recover(); p != nil {
			if _, ok := p.(harnessTrouble); ok || simrt.IsAbort(p) {
				panic(p)
			}
			r.Panic = fmt.Sprint(p)
		}
	}()
	switch op.Kind {
	case "IsExist":
		r.Bool = fs.IsExist(op.Path)
	case "IsFile":
		r.Bool = fs.IsFile(op.Path)
	case "IsDir":
		r.Bool = fs.IsDir(op.Path)
	case "ReadFile":
		r.Data, r.Err = fs.ReadFile(op.Path)
	case "Reader":
		var rd filesystem.Reader
		rd, r.Err = fs.Reader(op.Path)
		if r.Err != nil {
			return
		}
		r.Data, r.Err = readChunked(rd, op.Chunks)
		if cerr := rd.Close(); r.Err == nil {
			r.Err = cerr
		}
	case "ReadDir":
		r.Infos, r.Err = fs.ReadDir(op.Path)
	case "Lstat":
		r.Info, r.Err = fs.Lstat(op.Path)
	case "MkdirAll":
		r.Err = fs.MkdirAll(op.Path, filesystem.DefaultUnixDirMode)
	case "WriteFile":
		r.Err = fs.WriteFile(op.Path, op.Content(), filesystem.DefaultUnixFileMode)
	case "Writer":
		var w filesystem.Writer
		w, r.Err = fs.Writer(op.Path)
		if r.Err != nil {
			return
		}
		r.Err = writeChunked(w, op.Content(), op.Chunks)
		if cerr := w.Close(); r.Err == nil {
			r.Err = cerr
		}
	case "Remove":
		r.Err = fs.Remove(op.Path)
	case "RemoveAll":
		r.Err = fs.RemoveAll(op.Path)
	case "Copy":
		r.Err = fs.Copy(op.Path, op.Path2)
	case "CopyFile":
		r.Err = fs.CopyFile(op.Path, op.Path2)
	case "CopyDirectory":
		r.Err = fs.CopyDirectory(op.Path, op.Path2)
	case "Filespace":
		r.FS, r.Err = fs.Filespace(op.Path)
	default:
		panic(harnessTrouble{"RunFsOp: unknown operation " + op.Kind})
	}
	return
}

func writeChunked(w io.Writer, data []byte, chunks []int) error {
	i := 0
	total := len(data) // which of the three write methods comes first varies with the content length
	var scratch []byte
	for len(data) > 0 || i < len(chunks) {
		n := len(data)
		if i < len(chunks) {
			n = chunks[i]
			if n > len(data) {
				n = len(data)
			}
		}
		i++
		// one buffer reused for every chunk and scribbled over after each call, as io.Copy
		// and every buffered producer do: a Writer must not retain p (io.Writer contract)
		if cap(scratch) < n {
			scratch = make([]byte, n)
		}
		buf := scratch[:n]
		copy(buf, data[:n])
		// the three standard ways of handing bytes to an io.Writer: Write, io.Copy (which uses
		// ReadFrom when the writer offers it) and io.WriteString (WriteString when offered)
		var k int
		var err error
		switch (i*7 + total + n) % 3 {
		case 1:
			var k64 int64
			// the source must not offer WriteTo (io.Copy would prefer it over the writer's ReadFrom)
			k64, err = io.Copy(w, struct{ io.Reader }{bytes.NewReader(buf)})
			k = int(k64)
		case 2:
			k, err = io.WriteString(w, string(buf))
		default:
			k, err = w.Write(buf)
		}
		for j := range buf {
			buf[j] = 0xA5
		}
		if err != nil {
			return err
		}
		if k != n {
			return io.ErrShortWrite
		}
		data = data[n:]
		if i > 10000 {
			break
		}
	}
	return nil
}

func readChunked(rd io.Reader, sizes []int) ([]byte, error) {
	var out []byte
	i := 0
	zeroReads := 0
	for {
		n := 512
		if len(sizes) > 0 {
			n = sizes[i%len(sizes)]
			if n < 0 {
				n = 1
			}
			if n == 0 && (i%len(sizes) != 0 || zeroReads > 64) {
				n = 1 // a zero-length buffer is legal (0, nil); only the first size of a cycle may be one, so the loop advances
			}
			if n == 0 {
				zeroReads++
			}
		}
		i++
		buf := make([]byte, n)
		k, err := rd.Read(buf)
		out = append(out, buf[:k]...)
		if err == io.EOF {
			return out, nil
		}
		if err != nil {
			return out, err
		}
		if i > 100000 {
			return out, fmt.Errorf("reader never reports EOF")
		}
	}
}

// Judge compares the implementation's answer with the model's verdict. It returns a
// clause suffix and message ("" when fine) and applies the effect to the model.
func Judge(exp Expect, op FsOp, r FsResult) (clause, msg string) {
	if r.Panic != "" {
		return "panic", fmt.Sprintf("%s panicked: %s", op, r.Panic)
	}
	failed := r.Err != nil
	switch exp.Outcome {
	case MustFail:
		if !failed {
			return "accepted-invalid", fmt.Sprintf("%s succeeded, the model requires an error", op)
		}
		return "", ""
	case MustOK:
		if failed {
			return "refused-valid", fmt.Sprintf("%s failed (%v), the model requires success", op, r.Err)
		}
	case Either:
		if failed {
			return "", ""
		}
	}
	// success: check the returned value, then apply the effect
	switch op.Kind {
	case "IsExist", "IsFile", "IsDir":
		if r.Bool != exp.Bool {
			return "wrong-answer", fmt.Sprintf("%s = %v, model says %v", op, r.Bool, exp.Bool)
		}
	case "ReadFile", "Reader":
		if exp.Outcome == MustOK && !bytes.Equal(r.Data, exp.Data) {
			return "wrong-content", fmt.Sprintf("%s = %q, model says %q", op, r.Data, exp.Data)
		}
	case "ReadDir":
		if exp.Outcome == MustOK {
			if c, m := compareListing(r.Infos, exp.Names); c != "" {
				return c, fmt.Sprintf("%s: %s", op, m)
			}
		}
	case "Lstat":
		if exp.Outcome == MustOK {
			if r.Info == nil {
				return "wrong-answer", fmt.Sprintf("%s returned nil info and nil error", op)
			}
			if r.Info.IsDir() != exp.IsDir {
				return "wrong-answer", fmt.Sprintf("%s IsDir=%v, model says %v", op, r.Info.IsDir(), exp.IsDir)
			}
			if exp.Name != "" && r.Info.Name() != exp.Name {
				return "wrong-answer", fmt.Sprintf("%s Name=%q, model says %q", op, r.Info.Name(), exp.Name)
			}
			if !exp.IsDir && exp.Size >= 0 && int(r.Info.Size()) != exp.Size {
				return "wrong-answer", fmt.Sprintf("%s Size=%d, model says %d", op, r.Info.Size(), exp.Size)
			}
		}
	}
	if exp.apply != nil {
		exp.apply()
	}
	return "", ""
}

func compareListing(infos []os.FileInfo, want map[string]bool) (clause, msg string) {
	seen := map[string]bool{}
	for _, in := range infos {
		name := in.Name()
		if seen[name] {
			return "duplicate-name", fmt.Sprintf("listing contains %q twice (%v)", name, infoNames(infos))
		}
		seen[name] = true
		isDir, ok := want[name]
		if !ok {
			return "phantom-node", fmt.Sprintf("listing contains %q which was never created (%v, model %v)", name, infoNames(infos), sortedNames(want))
		}
		if isDir != in.IsDir() {
			return "wrong-kind", fmt.Sprintf("listing says %q isDir=%v, model says %v", name, in.IsDir(), isDir)
		}
	}
	for name := range want {
		if !seen[name] {
			return "missing-node", fmt.Sprintf("listing lacks %q (%v, model %v)", name, infoNames(infos), sortedNames(want))
		}
	}
	return "", ""
}

func infoNames(infos []os.FileInfo) []string {
	out := []string{}
	for _, i := range infos {
		out = append(out, i.Name())
	}
	return out
}

func sortedNames(m map[string]bool) []string {
	out := []string{}
	for k := range m {
		out = append(out, k)
	}
	sort.Strings(out)
	return out
}

// WalkFS renders an implementation's tree below root (through the public interface only)
// in the same form as ModelTree.Flatten, including listing sanity.
func WalkFS(fs filesystem.Filespace) (out map[string]string, clause, msg string) {
	return WalkFSLimit(fs, 64)
}

// Depth is the number of directory levels of the deepest node.
func (m *ModelTree) Depth() int {
	var d func(n *mnode) int
	d = func(n *mnode) int {
		max := 0
		for _, c := range n.kids {
			if c.dir {
				if k := 1 + d(c); k > max {
					max = k
				}
			} else if max < 1 {
				max = 1
			}
		}
		return max
	}
	return d(m.root)
}

// WalkLimit: no single operation makes a tree deeper than twice its depth plus the depth
// of a destination path; anything deeper than that is not the model's tree.
func (m *ModelTree) WalkLimit() int { return 2*m.Depth() + 16 }

// WalkFSLimit is WalkFS with an explicit guard against unbounded recursion (a directory
// that contains itself): callers with long histories derive it from their model.
func WalkFSLimit(fs filesystem.Filespace, limit int) (out map[string]string, clause, msg string) {
	out = map[string]string{}
	var walk func(prefix string, depth int) bool
	walk = func(prefix string, depth int) bool {
		p := prefix
		if p == "" {
			p = "."
		}
		infos, err := fs.ReadDir(p)
		if err != nil {
			clause, msg = "walk-error", fmt.Sprintf("ReadDir(%q): %v", p, err)
			return false
		}
		seen := map[string]bool{}
		for _, in := range infos {
			name := in.Name()
			if name == "." || name == ".." || name == "" || strings.Contains(name, "/") {
				clause, msg = "phantom-node", fmt.Sprintf("directory %q lists an entry named %q", p, name)
				return false
			}
			if seen[name] {
				clause, msg = "duplicate-name", fmt.Sprintf("directory %q lists %q twice", p, name)
				return false
			}
			seen[name] = true
			child := name
			if prefix != "" {
				child = prefix + "/" + name
			}
			if in.IsDir() {
				out[child] = "D"
				if depth > limit {
					clause, msg = "walk-error", fmt.Sprintf("tree deeper than %d levels (guard derived from the model's tree)", limit)
					return false
				}
				if !walk(child, depth+1) {
					return false
				}
			} else {
				data, err := fs.ReadFile(child)
				if err != nil {
					clause, msg = "walk-error", fmt.Sprintf("ReadFile(%q) of a listed file: %v", child, err)
					return false
				}
				out[child] = "F:" + string(data)
			}
		}
		return true
	}
	walk("", 0)
	return
}

// DiffTrees compares two flattened trees.
func DiffTrees(got, want map[string]string) string {
	keys := map[string]bool{}
	for k := range got {
		keys[k] = true
	}
	for k := range want {
		keys[k] = true
	}
	ks := sortedNames(keys)
	for _, k := range ks {
		g, gok := got[k]
		w, wok := want[k]
		switch {
		case !gok:
			return fmt.Sprintf("%q is missing (model: %s)", k, short(w))
		case !wok:
			return fmt.Sprintf("%q exists (%s) but not in the model", k, short(g))
		case g != w:
			return fmt.Sprintf("%q is %s, model says %s", k, short(g), short(w))
		}
	}
	return ""
}

func short(s string) string {
	if len(s) > 60 {
		return fmt.Sprintf("%q...(%d bytes)", s[:60], len(s))
	}
	return fmt.Sprintf("%q", s)
}


// has reports whether the root has a directory with that name.
func (m *ModelTree) has(name string) bool {
	n := m.lookup([]string{name})
	return n != nil && n.dir
}

// WideSpec: a directory "w" with many entries (past the thresholds at which containers grow,
// shrink or switch algorithm), optionally mostly emptied again. Names n000, n001, ...
type WideSpec struct {
	N      int    `json:"n"`
	Remove int    `json:"remove,omitempty"` // how many of them are removed again, in a seeded order
	Seed   uint64 `json:"seed,omitempty"`
	Deep   int    `json:"deep,omitempty"` // additionally a chain of that many nested directories w/k/k/.../k with a file at the bottom
}

func genWide(r *Rand) *WideSpec {
	w := &WideSpec{N: r.Pick(65, 70, 100, 129, 140), Seed: r.Uint64()}
	if r.Chance(1, 3) {
		w.N = 3
		w.Deep = r.Pick(17, 31, 32, 33, 40) // recursion bounds and fixed-size stacks live at 16 and 32
	}
	if r.Chance(2, 3) && w.Deep == 0 {
		w.Remove = w.N - r.Pick(1, 5, 20, 32, 33)
	}
	return w
}

func wideName(i int) string { return fmt.Sprintf("w/n%03d", i) }

// Apply creates (and partly removes) the entries through fs and keeps m in step. fs may be
// nil (generator side). Returns the first refusal.
func (w *WideSpec) Apply(fs filesystem.Filespace, m *ModelTree, removeThrough filesystem.Filespace) error {
	do := func(target filesystem.Filespace, op FsOp) error {
		exp := m.Expectation(nil, op)
		if target != nil {
			if r := RunFsOp(target, op); r.Err != nil || r.Panic != "" {
				return fmt.Errorf("%s: err=%v panic=%s", op, r.Err, r.Panic)
			}
		}
		if exp.Outcome == MustOK && exp.apply != nil {
			exp.apply()
		}
		return nil
	}
	// created in a seeded order, not by name: a listing need not come back sorted
	create := make([]int, w.N)
	for i := range create {
		create[i] = i
	}
	cr := NewRand(w.Seed ^ 0x9e3779b97f4a7c15)
	for i := len(create) - 1; i > 0; i-- {
		j := cr.Intn(i + 1)
		create[i], create[j] = create[j], create[i]
	}
	for _, i := range create {
		if err := do(fs, FsOp{Kind: "WriteFile", Path: wideName(i), Data: fmt.Sprintf("w%03d", i)}); err != nil {
			return err
		}
	}
	if w.Deep > 0 {
		p := "w" + strings.Repeat("/k", w.Deep)
		if err := do(fs, FsOp{Kind: "MkdirAll", Path: p}); err != nil {
			return err
		}
		if err := do(fs, FsOp{Kind: "WriteFile", Path: p + "/bottom", Data: "deep"}); err != nil {
			return err
		}
	}
	order := make([]int, w.N)
	for i := range order {
		order[i] = i
	}
	rr := NewRand(w.Seed)
	for i := len(order) - 1; i > 0; i-- {
		j := rr.Intn(i + 1)
		order[i], order[j] = order[j], order[i]
	}
	for k := 0; k < w.Remove && k < w.N; k++ {
		if err := do(removeThrough, FsOp{Kind: "Remove", Path: wideName(order[k])}); err != nil {
			return err
		}
	}
	return nil
}
