package simcheck

import (
	"syscall"
	"errors"
	"fmt"
	"os"
	"sort"
	"strings"
	"time"

	"github.com/goatcms/goatcore/filesystem"
	"github.com/goatcms/goatcore/filesystem/filespace/memfs"
	"github.com/goatcms/goatcore/filesystem/fsloop"
	"github.com/goatcms/goatcore/workers"
	"simrt"
)

// C08 — concurrent tree walk: exactly once, bounded, then stops.
//
// Workload: a random tree in a memfs behind FaultFS (ReadDir latency, one optional
// listing error), random filters, optional callbacks, producer/consumer limits, queue
// capacity knob; callbacks count concurrency, sleep simulated time and optionally fail.
// The real fsloop.Loop (producers, consumers, completion goroutine) runs under the
// seeded scheduler.

type c08In struct {
	Dirs        []string `json:"dirs"`
	Files       []string `json:"files"`
	DirFilter   int      `json:"dir_filter"`  // 0 = nil filter, else salt of a path predicate
	FileFilter  int      `json:"file_filter"` // idem
	OnDir       bool     `json:"on_dir"`
	OnFile      bool     `json:"on_file"`
	Consumers   int      `json:"consumers"`
	Producents  int      `json:"producents"`
	MaxJob      int      `json:"max_job"`
	ChanSize    int      `json:"chan_size"`
	LatencyMS   []int    `json:"readdir_latency_ms"`
	SleepMS     []int    `json:"callback_sleep_ms"`
	FailReadDir int      `json:"fail_readdir_at"`  // n-th ReadDir call fails (-1: none)
	NotExist    bool     `json:"not_exist,omitempty"` // the failing ReadDir reports "no such file or directory" (the directory vanished), an error like any other
	FailCall    int      `json:"fail_callback_at"` // n-th callback fails (-1: none)
	FailCalls   []int    `json:"fail_callbacks,omitempty"` // further failing callbacks (each returns its own error value)
}

func c08Accept(salt int, path string) bool {
	if salt == 0 {
		return true
	}
	return strHash(fmt.Sprintf("%d|%s", salt, path))%3 != 0
}

func cleanRel(p string) string {
	p = strings.TrimPrefix(p, "./")
	for strings.Contains(p, "//") {
		p = strings.ReplaceAll(p, "//", "/")
	}
	return strings.Trim(p, "/")
}

func c08Gen(r *Rand, tier string) interface{} {
	in := &c08In{FailReadDir: -1, FailCall: -1}
	names := []string{"a", "b", "c", "d", "e"}
	maxNodes := 3 + r.Intn(8)
	if tier == "thorough" && r.Chance(1, 4) {
		maxNodes = 10 + r.Intn(25)
	}
	if r.Chance(1, 60) {
		maxNodes = 80 + r.Intn(200) // past any plausible batch size
	}
	dirs := []string{""}
	seen := map[string]bool{}
	switch r.Intn(5) {
	case 0: // empty or nearly empty
		maxNodes = r.Intn(2)
	case 1: // deep chain
		p := ""
		depth := 2 + r.Intn(5)
		for i := 0; i < depth; i++ {
			p = strings.TrimPrefix(p+"/"+names[r.Intn(2)], "/")
			if !seen[p] {
				seen[p] = true
				in.Dirs = append(in.Dirs, p)
				dirs = append(dirs, p)
			}
		}
	}
	for n := len(in.Dirs); n < maxNodes; n++ {
		parent := dirs[r.Intn(len(dirs))]
		name := names[r.Intn(len(names))] + fmt.Sprint(r.Intn(3))
		if maxNodes > 40 {
			name = names[r.Intn(len(names))] + fmt.Sprint(r.Intn(400))
		}
		p := strings.TrimPrefix(parent+"/"+name, "/")
		if seen[p] {
			continue
		}
		seen[p] = true
		if r.Chance(1, 3) && strings.Count(p, "/") < 5 {
			in.Dirs = append(in.Dirs, p)
			dirs = append(dirs, p)
		} else {
			in.Files = append(in.Files, p)
		}
	}
	if r.Chance(1, 3) {
		in.DirFilter = 1 + r.Intn(1000)
	}
	if r.Chance(1, 3) {
		in.FileFilter = 1 + r.Intn(1000)
	}
	in.OnDir = r.Chance(3, 4)
	in.OnFile = r.Chance(7, 8)
	in.MaxJob = 1 + r.Intn(4)
	if tier == "thorough" && r.Chance(1, 8) {
		in.MaxJob = 1 + r.Intn(16)
	}
	in.Consumers = r.Intn(in.MaxJob + 2) // 0 = default, may exceed MaxJob (clamped by the loop)
	in.Producents = r.Intn(in.MaxJob + 2)
	in.ChanSize = r.Pick(1, 2, 8, 1000)
	for i, n := 0, r.Intn(4); i < n; i++ {
		in.LatencyMS = append(in.LatencyMS, r.Pick(0, 1, 2, 5))
	}
	if len(in.Dirs) <= 20 && r.Chance(1, 4) {
		in.LatencyMS = append(in.LatencyMS, r.Pick(300, 1000)) // a slow listing (small trees only: the loop lives 2 minutes)
	}
	for i, n := 0, r.Intn(4); i < n; i++ {
		in.SleepMS = append(in.SleepMS, r.Pick(0, 0, 1, 10, 50))
	}
	switch r.Intn(8) {
	case 0:
		in.FailReadDir = r.Intn(1 + len(in.Dirs))
		in.NotExist = r.Chance(1, 3)
	case 1:
		in.FailCall = r.Intn(1 + len(in.Dirs) + len(in.Files))
	case 2:
		// several callbacks fail (possibly while another one is still running): every returned
		// error must be in the list, not just one of them
		in.FailCall = r.Intn(1 + len(in.Dirs) + len(in.Files))
		for k := 0; k < 1+r.Intn(2); k++ {
			in.FailCalls = append(in.FailCalls, r.Intn(1+len(in.Dirs)+len(in.Files)))
		}
		if in.Consumers < 2 {
			in.Consumers = 2
		}
		if in.MaxJob < 2 {
			in.MaxJob = 2
		}
	}
	return in
}

// c08Expected computes the model's selection: descending only into accepted directories.
func c08Expected(in *c08In) (files, dirs []string) {
	children := map[string][]string{}
	isDir := map[string]bool{}
	for _, d := range in.Dirs {
		isDir[d] = true
	}
	all := append(append([]string{}, in.Dirs...), in.Files...)
	for _, p := range all {
		parent := ""
		if i := strings.LastIndex(p, "/"); i >= 0 {
			parent = p[:i]
		}
		children[parent] = append(children[parent], p)
	}
	var walk func(d string)
	walk = func(d string) {
		for _, c := range children[d] {
			if isDir[c] {
				if c08Accept(in.DirFilter, c) {
					if in.OnDir {
						dirs = append(dirs, c)
					}
					walk(c)
				}
			} else if in.OnFile && c08Accept(in.FileFilter, c) {
				files = append(files, c)
			}
		}
	}
	walk("")
	sort.Strings(files)
	sort.Strings(dirs)
	return
}

var errC08Callback = errors.New("injected callback error")

func c08Run(inI interface{}, env *Env) *Failure {
	in := inI.(*c08In)
	expFiles, expDirs := c08Expected(in)
	var (
		gotFiles, gotDirs []string
		running, maxRun   int
		calls             int
		waitReturned      bool
		lateStart         bool
		runningAtWait     int
		loopErrs          []error
		effConsumers      int
		returned          []error // every error value a callback returned
		st                = &FaultState{FailAt: map[int]string{}}
		setupErr          error
	)
	// the budget scales with the tree: a big walk is not a hang
	nodes := len(in.Dirs) + len(in.Files)
	res := env.Sim(SimOpts{MaxSteps: 20000 + 4000*nodes, FairSteps: 20000 + 4000*nodes}, func() {
		workers.MaxJob, fsloop.ChanSize = in.MaxJob, in.ChanSize
		mem, err := memfs.NewFilespace()
		if err != nil {
			setupErr = err
			return
		}
		for _, d := range in.Dirs {
			if err := mem.MkdirAll(d, 0o777); err != nil {
				setupErr = err
				return
			}
		}
		for _, f := range in.Files {
			if err := mem.WriteFile(f, []byte(f), 0o644); err != nil {
				setupErr = err
				return
			}
		}
		readDirs := 0
		st.Latency = func(op string) time.Duration {
			if op != "ReadDir" || len(in.LatencyMS) == 0 {
				return 0
			}
			return time.Duration(in.LatencyMS[(st.Calls["ReadDir"]-1)%len(in.LatencyMS)]) * time.Millisecond
		}
		ffs := NewFaultFS(mem, st)
		// the n-th ReadDir fails: positions count only ReadDir calls here
		faultFS := &c08FS{FaultFS: ffs, failAt: in.FailReadDir, notExist: in.NotExist, n: &readDirs, env: env}
		callback := func(list *[]string) filesystem.LoopOn {
			return func(fs filesystem.Filespace, p string) error {
				idx := calls
				calls++
				running++
				if running > maxRun {
					maxRun = running
				}
				if waitReturned {
					lateStart = true
				}
				*list = append(*list, cleanRel(p))
				if len(in.SleepMS) > 0 {
					if ms := in.SleepMS[idx%len(in.SleepMS)]; ms > 0 {
						simrt.Sleep(time.Duration(ms) * time.Millisecond)
					} else {
						simrt.Yield()
					}
				} else {
					simrt.Yield()
				}
				running--
				if idx == in.FailCall {
					env.Count("fault.callback-error")
					returned = append(returned, errC08Callback)
					return errC08Callback
				}
				for _, fc := range in.FailCalls {
					if idx == fc {
						env.Count("fault.callback-error")
						e := fmt.Errorf("injected callback error #%d", idx)
						returned = append(returned, e)
						return e
					}
				}
				return nil
			}
		}
		data := &fsloop.LoopData{Filespace: faultFS, Consumers: in.Consumers, Producents: in.Producents}
		if in.DirFilter != 0 {
			data.DirFilter = func(fs filesystem.Filespace, p string) bool { return c08Accept(in.DirFilter, cleanRel(p)) }
		}
		if in.FileFilter != 0 {
			data.FileFilter = func(fs filesystem.Filespace, p string) bool { return c08Accept(in.FileFilter, cleanRel(p)) }
		}
		if in.OnDir {
			data.OnDir = callback(&gotDirs)
		}
		if in.OnFile {
			data.OnFile = callback(&gotFiles)
		}
		effConsumers = in.Consumers
		if effConsumers == 0 || effConsumers > in.MaxJob {
			effConsumers = in.MaxJob
		}
		loop := fsloop.NewLoop(data, nil)
		loop.Run("")
		loop.Wait()
		waitReturned = true
		runningAtWait = running
		loopErrs = loop.Errors()
		// give stragglers (if any) simulated time to show themselves
		simrt.Sleep(time.Second)
	})
	if setupErr != nil {
		panic(harnessTrouble{"C08 setup: " + setupErr.Error()})
	}
	if len(expFiles)+len(expDirs) > 0 && res.Decisions > 0 {
		env.Count("nontrivial")
	}
	// configurations that force the rare paths (counted so that a mix that never reaches them shows)
	if len(expFiles) > in.ChanSize || len(expDirs) > in.ChanSize {
		env.Count("probe.more-selected-nodes-than-queue-capacity")
	}
	effProd := in.Producents
	if effProd == 0 || effProd > in.MaxJob {
		effProd = in.MaxJob
	}
	if effProd == 1 && len(in.Dirs) > 0 {
		env.Count("probe.producer-pool-exhausted:in-line-recursion")
	}
	if len(in.Dirs)+len(in.Files) == 0 {
		env.Count("probe.empty-tree")
	}
	if f := env.SimFailure("C08", res); f != nil {
		return f
	}
	shape := fmt.Sprintf("consumers=%d", effConsumers)
	injected := false
	for _, e := range loopErrs {
		var ie *ErrInjected
		if errors.As(e, &ie) || (in.NotExist && errors.Is(e, syscall.ENOENT)) {
			injected = true
		}
	}
	firedRead := in.FailReadDir >= 0 && env.Counters["fault.op-error"] > 0
	firedCall := len(returned) > 0
	if firedRead && !injected {
		return failf("C08/error-missing", shape, "the injected listing error is not in Errors(): %v", loopErrs)
	}
	for _, re := range returned {
		found := false
		for _, e := range loopErrs {
			if e == re || errors.Is(e, re) {
				found = true
			}
		}
		if !found {
			return failf("C08/error-missing", shape+"/one-of-several", "a callback returned %q but it is not in Errors(): %v", re, loopErrs)
		}
	}
	if maxRun > effConsumers {
		return failf("C08/concurrency-bound", shape, "%d callbacks ran at once with %d consumers", maxRun, effConsumers)
	}
	if runningAtWait != 0 || lateStart {
		return failf("C08/wait-before-last-callback", shape, "Wait returned with %d callbacks running (late start: %v)", runningAtWait, lateStart)
	}
	if f := c08Compare("file", expFiles, gotFiles, firedRead || firedCall, shape); f != nil {
		return f
	}
	if f := c08Compare("dir", expDirs, gotDirs, firedRead || firedCall, shape); f != nil {
		return f
	}
	if !firedRead && !firedCall && len(loopErrs) > 0 {
		return failf("C08/spurious-error", shape, "no error was injected but Errors() = %v", loopErrs)
	}
	return nil
}

func c08Compare(kind string, exp, got []string, faulted bool, shape string) *Failure {
	sort.Strings(got)
	expSet := map[string]bool{}
	for _, e := range exp {
		expSet[e] = true
	}
	cnt := map[string]int{}
	for _, g := range got {
		cnt[g]++
		if cnt[g] > 1 {
			return failf("C08/repeated-item", shape, "%s callback ran %d times for %q", kind, cnt[g], g)
		}
		if !expSet[g] {
			return failf("C08/unselected-item", shape, "%s callback ran for %q which the filters do not select", kind, g)
		}
	}
	if faulted {
		return nil // after an error the walk may legitimately stop early
	}
	for _, e := range exp {
		if cnt[e] == 0 {
			return failf("C08/lost-item", shape, "%s callback never ran for %q (expected %v, got %v)", kind, e, exp, got)
		}
	}
	return nil
}

// c08FS fails the n-th ReadDir call.
type c08FS struct {
	*FaultFS
	failAt   int
	notExist bool
	n        *int
	env      *Env
}

func (f *c08FS) ReadDir(p string) ([]os.FileInfo, error) {
	i := *f.n
	*f.n++
	if i == f.failAt {
		f.env.Count("fault.op-error")
		if f.notExist {
			return nil, &os.PathError{Op: "open", Path: p, Err: syscall.ENOENT}
		}
		return nil, &ErrInjected{Pos: i, Kind: FaultOpError, Op: "ReadDir " + p}
	}
	return f.FaultFS.ReadDir(p)
}

func c08Shrink(inI interface{}) []interface{} {
	in := inI.(*c08In)
	var out []interface{}
	cp := func() *c08In {
		c := *in
		c.Dirs = append([]string(nil), in.Dirs...)
		c.Files = append([]string(nil), in.Files...)
		c.LatencyMS = append([]int(nil), in.LatencyMS...)
		c.SleepMS = append([]int(nil), in.SleepMS...)
		c.FailCalls = append([]int(nil), in.FailCalls...)
		return &c
	}
	for i := range in.Files {
		c := cp()
		c.Files = append(c.Files[:i], c.Files[i+1:]...)
		out = append(out, c)
	}
	for i := len(in.Dirs) - 1; i >= 0; i-- {
		// only leaf directories can go
		leaf := true
		for _, p := range append(append([]string{}, in.Dirs...), in.Files...) {
			if strings.HasPrefix(p, in.Dirs[i]+"/") {
				leaf = false
			}
		}
		if leaf {
			c := cp()
			c.Dirs = append(c.Dirs[:i], c.Dirs[i+1:]...)
			out = append(out, c)
		}
	}
	if len(in.LatencyMS) > 0 {
		c := cp()
		c.LatencyMS = nil
		out = append(out, c)
	}
	if len(in.FailCalls) > 1 {
		c := cp()
		c.FailCalls = c.FailCalls[:1]
		out = append(out, c)
	}
	if len(in.SleepMS) > 0 {
		c := cp()
		c.SleepMS = nil
		out = append(out, c)
	}
	if in.DirFilter != 0 {
		c := cp()
		c.DirFilter = 0
		out = append(out, c)
	}
	if in.FileFilter != 0 {
		c := cp()
		c.FileFilter = 0
		out = append(out, c)
	}
	if in.MaxJob > 1 {
		c := cp()
		c.MaxJob--
		out = append(out, c)
	}
	if in.Consumers > 1 {
		c := cp()
		c.Consumers--
		out = append(out, c)
	}
	if in.Producents > 1 {
		c := cp()
		c.Producents--
		out = append(out, c)
	}
	if in.ChanSize != 1000 {
		c := cp()
		c.ChanSize = 1000
		out = append(out, c)
	}
	return out
}

func init() {
	register(&Prop{
		ID:     "C08",
		Level:  "exploration",
		Gen:    c08Gen,
		New:    func() interface{} { return &c08In{} },
		Run:    c08Run,
		Shrink: c08Shrink,
		Rule: "one case = (tree, filters, callbacks, limits, queue capacity, latencies, fault) x one seeded schedule of producers, consumers and the completion goroutine; " +
			"non-trivial = at least one selected node and at least one scheduling decision with more than one runnable task; distinct = distinct (input, sequence of (task,site) decisions)",
		Real: []string{"filesystem/fsloop (Loop, Producer, Consumer)", "workers/jobsync (Pool, Lifecycle)", "filesystem/filespace/memfs", "std context deadline"},
		Stub: []string{"sync.Mutex/RWMutex/WaitGroup -> simrt", "goroutine scheduler -> seeded baton scheduler", "clock -> synctest fake clock", "FaultFS wrapper (latency, listing error)", "callbacks (probes)"},
		Assumptions: []string{
			"preemption is explored at synchronisation operations, channel operations and a per-run random subset of statement boundaries, not at every machine instruction",
			"callback identity is the cleaned path; the exact spelling handed to callbacks is not judged",
		},
	})
}
