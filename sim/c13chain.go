package simcheck

import (
	"fmt"

	"github.com/goatcms/goatcore/app"
	"github.com/goatcms/goatcore/app/scope/datascope"
	"simrt"
)

// C13, shape 3 — a parent-child chain (2-3 levels) used by 2-4 tasks at once.
//
// Key 0 exists at every level from the start ("own" key), key 1 only at the root (a read at
// a lower level falls through), key 2 nowhere.  Tasks issue plain reads and writes at any
// level and locked sections.  Two modes keep the generated *program* free of lock-order
// inversions that goatcore's design does not promise to survive:
//
//	mode "down": a section on level L may also use the scope objects of its descendants
//	             (reads there only of the own key, so that nothing falls back into the
//	             section's own, locked, scope); sections below the root read only own keys;
//	mode "up":   sections read any key through their locker (missing keys fall through to
//	             the ancestors, child lock held -> parent read lock) and touch no other level.
//
// Oracle: no task blocks for ever; every value read at level l for key k is nil (only if
// no level <= l had the key when the read began... see below), an initial value or a value
// written at some level <= l for k; once level l has the key (initially, or by a write that
// returned before the read began) the read returns a value of level l itself (the child's
// own value wins); a write at a lower level is never seen at a higher one.

type c13ChainStep struct {
	Kind string `json:"kind"` // r w y
	Key  int    `json:"key"`
	Val  int    `json:"val,omitempty"`
	Lv   int    `json:"lv"` // -1: the operation's own level (through the locker inside a section)
}

type c13ChainOp struct {
	Level  int            `json:"level"`
	Locked bool           `json:"locked"`
	Steps  []c13ChainStep `json:"steps"`
}

type c13Chain struct {
	Depth int            `json:"depth"`
	Mode  string         `json:"mode"`
	Tasks [][]c13ChainOp `json:"tasks"`
}

func c13ChainGen(r *Rand, tier string, next func() int) *c13Chain {
	in := &c13Chain{Depth: 2 + r.Intn(2), Mode: []string{"down", "up"}[r.Intn(2)]}
	nt := 2 + r.Intn(3)
	for t := 0; t < nt; t++ {
		var ops []c13ChainOp
		for i, n := 0, 1+r.Intn(3); i < n; i++ {
			op := c13ChainOp{Level: r.Intn(in.Depth), Locked: r.Chance(1, 2)}
			ns := 1
			if op.Locked {
				ns = 1 + r.Intn(3)
			}
			for j := 0; j < ns; j++ {
				st := c13ChainStep{Kind: []string{"r", "r", "w", "y"}[r.Intn(4)], Key: r.Intn(3), Lv: -1}
				if !op.Locked && st.Kind == "y" {
					st.Kind = "r"
				}
				if op.Locked {
					switch in.Mode {
					case "down":
						if op.Level+1 < in.Depth && r.Chance(1, 2) {
							st.Lv = op.Level + 1 + r.Intn(in.Depth-op.Level-1)
							if st.Kind == "r" {
								st.Key = 0
							}
						} else if op.Level > 0 && st.Kind == "r" {
							st.Key = 0
						}
					}
				}
				if st.Kind == "w" {
					st.Val = next()
				}
				op.Steps = append(op.Steps, st)
			}
			ops = append(ops, op)
		}
		in.Tasks = append(in.Tasks, ops)
	}
	return in
}

type c13ChainEv struct {
	write     bool
	level     int
	key, val  int
	isNil     bool
	call, ret int
	task      int
}

func c13ChainRun(in *c13Chain, env *Env) *Failure {
	var evs []c13ChainEv
	seq := 0
	initVal := func(level, key int) int { return 10 + level*3 + key }
	hasInit := func(level, key int) bool { return key == 0 || (key == 1 && level == 0) }
	res := env.Sim(SimOpts{MaxSteps: 30000, FairSteps: 30000}, func() {
		chain := []app.DataScope{datascope.New(map[interface{}]interface{}{})}
		for i := 1; i < in.Depth; i++ {
			chain = append(chain, datascope.NewChild(chain[i-1], map[interface{}]interface{}{}))
		}
		for l := 0; l < in.Depth; l++ {
			for k := 0; k < 3; k++ {
				if hasInit(l, k) {
					chain[l].SetValue(c13K(k), initVal(l, k))
				}
			}
		}
		var wg simrt.WaitGroup
		wg.Add(len(in.Tasks))
		for ti, ops := range in.Tasks {
			ti, ops := ti, ops
			simrt.GoNamed(fmt.Sprintf("client%d", ti), func() {
				defer wg.Done()
				for _, op := range ops {
					var own app.DataScope = chain[op.Level]
					var locker app.DataScopeLocker
					if op.Locked {
						locker = chain[op.Level].LockData()
						own = locker
					}
					for _, s := range op.Steps {
						target, level := own, op.Level
						if s.Lv >= 0 {
							target, level = chain[s.Lv], s.Lv
						}
						switch s.Kind {
						case "r":
							seq++
							ev := c13ChainEv{level: level, key: s.Key, call: seq, task: ti}
							v := target.Value(c13K(s.Key))
							if v == nil {
								ev.isNil = true
							} else {
								ev.val = v.(int)
							}
							seq++
							ev.ret = seq
							evs = append(evs, ev)
						case "w":
							seq++
							ev := c13ChainEv{write: true, level: level, key: s.Key, val: s.Val, call: seq, task: ti}
							target.SetValue(c13K(s.Key), s.Val)
							seq++
							ev.ret = seq
							evs = append(evs, ev)
						case "y":
							simrt.Yield()
						}
					}
					if locker != nil {
						_ = locker.Commit()
					}
				}
			})
		}
		wg.Wait()
	})
	if res.Decisions > 0 {
		env.Count("nontrivial")
	}
	env.Count("probe.chain-runs-mode-" + in.Mode)
	if f := env.SimFailure("C13", res); f != nil {
		if f.Clause == "C13/deadlock" {
			f.Key = "chain-" + in.Mode
		}
		return f
	}
	if len(res.Races) > 0 {
		rc := res.Races[0]
		return failf("C13/map-race", fmt.Sprintf("%s|%s", siteName(rc.Site1), siteName(rc.Site2)), "unsynchronised %s access to %s: %s (task %d) vs %s (task %d)",
			rc.Kind, rc.MapLabel, siteName(rc.Site1), rc.Task1, siteName(rc.Site2), rc.Task2)
	}
	for _, rd := range evs {
		if rd.write {
			continue
		}
		// does level rd.level certainly own the key when the read begins?
		owns := hasInit(rd.level, rd.key)
		for _, w := range evs {
			if w.write && w.level == rd.level && w.key == rd.key && w.ret < rd.call {
				owns = true
			}
		}
		if rd.isNil {
			for l := 0; l <= rd.level; l++ {
				if hasInit(l, rd.key) {
					return failf("C13/overlay", "nil", "task %d read nil for key %d at level %d although level %d has had the key from the start", rd.task, rd.key, rd.level, l)
				}
				for _, w := range evs {
					if w.write && w.level == l && w.key == rd.key && w.ret < rd.call {
						return failf("C13/overlay", "nil", "task %d read nil for key %d at level %d although a write of it at level %d had returned before", rd.task, rd.key, rd.level, l)
					}
				}
			}
			continue
		}
		srcLevel := -1
		for l := 0; l < in.Depth; l++ {
			if hasInit(l, rd.key) && initVal(l, rd.key) == rd.val {
				srcLevel = l
			}
		}
		for _, w := range evs {
			if w.write && w.val == rd.val {
				if w.key != rd.key {
					return failf("C13/overlay", "wrong-key", "task %d read %d for key %d, a value written for key %d", rd.task, rd.val, rd.key, w.key)
				}
				if w.call > rd.ret {
					return failf("C13/overlay", "future", "task %d read %d before its write began", rd.task, rd.val)
				}
				srcLevel = w.level
			}
		}
		switch {
		case srcLevel < 0:
			return failf("C13/overlay", "unknown-value", "task %d read %d for key %d at level %d: nobody wrote that value", rd.task, rd.val, rd.key, rd.level)
		case srcLevel > rd.level:
			return failf("C13/child-write-visible-in-parent", "", "task %d read %d for key %d at level %d, a value of level %d: setting a value in a child changed what an ancestor returns", rd.task, rd.val, rd.key, rd.level, srcLevel)
		case owns && srcLevel != rd.level:
			return failf("C13/overlay", "own-value-wins", "task %d read %d (a value of level %d) for key %d at level %d although that level had its own value before the read began", rd.task, rd.val, srcLevel, rd.key, rd.level)
		}
	}
	return nil
}

func c13ChainShrink(in *c13Chain) []*c13Chain {
	var out []*c13Chain
	cp := func() *c13Chain {
		c := &c13Chain{Depth: in.Depth, Mode: in.Mode}
		for _, t := range in.Tasks {
			var ops []c13ChainOp
			for _, o := range t {
				o.Steps = append([]c13ChainStep(nil), o.Steps...)
				ops = append(ops, o)
			}
			c.Tasks = append(c.Tasks, ops)
		}
		return c
	}
	for i := range in.Tasks {
		if len(in.Tasks) > 2 {
			c := cp()
			c.Tasks = append(c.Tasks[:i], c.Tasks[i+1:]...)
			out = append(out, c)
		}
		for j := range in.Tasks[i] {
			c := cp()
			c.Tasks[i] = append(c.Tasks[i][:j], c.Tasks[i][j+1:]...)
			out = append(out, c)
			for k := range in.Tasks[i][j].Steps {
				if len(in.Tasks[i][j].Steps) > 1 {
					c := cp()
					c.Tasks[i][j].Steps = append(c.Tasks[i][j].Steps[:k], c.Tasks[i][j].Steps[k+1:]...)
					out = append(out, c)
				}
			}
		}
	}
	return out
}
