package simcheck

import (
	"fmt"
	"strings"

	"github.com/goatcms/goatcore/filesystem"
	"github.com/goatcms/goatcore/filesystem/filespace/memfs"
	"github.com/goatcms/goatcore/filesystem/fscache"
)

// C06 — write-back cache: nothing reaches the remote before Commit, everything after.
//
// One case = initial remote tree + cache history + Commit points.  Execution 0 is
// fault-free: after every cache operation the remote must equal its last committed state;
// after every Commit that returned nil the remote tree must equal the model (initial remote
// + the operations the cache accepted, applied directly).  The last Commit is then
// fault-enumerated: a dry run counts the remote I/O positions of that Commit, and for EVERY
// position (x error kinds) the whole history is re-executed with a fault injected there:
// the Commit must report an error, and a following fault-free Commit must succeed and
// leave remote = model.

func c06Gen(r *Rand, tier string) interface{} {
	in := &cacheIn{Remote: genTree(r, 8)}
	// seven histories in eight run fault-free only (remote untouched before Commit, remote =
	// model after every Commit): they cost a hundredth of a fault-enumerated one
	in.Light = r.Chance(7, 8)
	n := 1 + r.Intn(25)
	if r.Chance(1, 3) {
		n = 1 + r.Intn(6)
	}
	gm := NewModelTree()
	_ = populate(nil, gm, in.Remote)
	in.Ops = genFsOps(r, n, nil, r.Chance(1, 2), gm)
	// reads do not matter here: keep mostly mutations
	for i := range in.Ops {
		if !isMutation(in.Ops[i].Kind) && in.Ops[i].Kind != "Filespace" && r.Chance(2, 3) {
			in.Ops[i].Kind = []string{"WriteFile", "MkdirAll", "Remove", "RemoveAll", "Writer"}[r.Intn(5)]
			if in.Ops[i].Kind == "WriteFile" || in.Ops[i].Kind == "Writer" {
				in.Ops[i].Data = fmt.Sprintf("#%d:w", i)
			}
		}
	}
	for i := 0; i < len(in.Ops)-1; i++ {
		if r.Chance(1, 10) {
			in.Commits = append(in.Commits, i)
		}
	}
	in.Steer = r.Chance(1, 2)
	// drawn after everything else: a recursive removal of a remote directory, a node below it
	// created again and then removed node by node, all within reach of one Commit (the replay
	// order of the removal journals matters only for such overlapping paths)
	if r.Chance(1, 6) {
		c06RemoveRecreateRemove(r, in)
	}
	if in.Steer {
		in.Ops = steerCacheOps("C06", in.Remote, in.Ops)
	}
	return in
}

func c06RemoveRecreateRemove(r *Rand, in *cacheIn) {
	d, s, f := poolName(r), poolName(r), poolName(r)
	sub := d + "/" + s
	for _, p := range []string{d, sub} {
		if _, isFile := in.Remote.Files[p]; isFile {
			return
		}
	}
	for _, p := range in.Remote.Dirs {
		if p == sub+"/"+f {
			return
		}
	}
	in.Remote.Files[sub+"/"+f] = "r:motif"
	motif := []FsOp{{Kind: "RemoveAll", Path: []string{d, sub}[r.Intn(2)]}}
	if r.Chance(1, 2) {
		motif = append(motif, FsOp{Kind: "MkdirAll", Path: sub})
	} else {
		g := sub + "/" + poolName(r)
		motif = append(motif, FsOp{Kind: "WriteFile", Path: g, Data: "#m:w"}, FsOp{Kind: "Remove", Path: g})
	}
	motif = append(motif, FsOp{Kind: "Remove", Path: sub})
	// interleaved with the random operations, order kept
	out := make([]FsOp, 0, len(in.Ops)+len(motif))
	rest := in.Ops
	for len(motif) > 0 || len(rest) > 0 {
		if len(rest) == 0 || (len(motif) > 0 && r.Chance(1, 2)) {
			out, motif = append(out, motif[0]), motif[1:]
		} else {
			out, rest = append(out, rest[0]), rest[1:]
		}
	}
	// (intermediate Commit indexes stay valid: the history only grew)
	in.Ops = out
}

type c06Exec struct {
	fail      *Failure
	positions int     // remote I/O positions used by the last Commit
	lastStart int     // absolute position at which the last Commit began
	ranges    [][2]int // absolute position ranges of the intermediate Commits
	cut       bool
	fired     int
	trace     []string
}

// c06Execute runs the history once. failAt >= 0 injects a fault of the given kind at that
// ABSOLUTE remote I/O position (the executions replay the dry run's choices, so positions
// line up until the fault). A fault may land in an intermediate Commit or in the last one.
func c06Execute(in *cacheIn, env *Env, failAt int, kind string, second int) (ex c06Exec) {
	res := env.Sim(SimOpts{MaxSteps: 250000, FairSteps: 50000}, func() {
		base, err := memfs.NewFilespace()
		if err != nil {
			panic(harnessTrouble{err.Error()})
		}
		model := NewModelTree()
		if err := populate(base, model, in.Remote); err != nil {
			panic(harnessTrouble{"populate: " + err.Error()})
		}
		st := &FaultState{FailAt: map[int]string{}, KeepTrace: failAt < 0}
		st.OnFire = func(k string) { env.Count("fault." + k) }
		if failAt >= 0 {
			st.FailAt[failAt] = kind
		}
		var remote filesystem.Filespace = NewFaultFS(base, st)
		cache, err := fscache.NewMemCache(remote)
		if err != nil {
			panic(harnessTrouble{err.Error()})
		}
		h := &histChecker{prop: "C06", model: model, root: cache, views: []fsView{{fs: cache}}, env: env, lenientMutations: true, ignoreReads: true}
		committed := model.Clone() // what the remote must look like until the next Commit
		dirty := false             // a Commit failed under a fault: the remote is in between until one succeeds
		checkRemote := func(want *ModelTree, when string, clause string) *Failure {
			got, c, msg := WalkFSLimit(base, want.WalkLimit())
			if c != "" {
				return failf("C06/"+c, "remote-walk", "%s: %s", when, msg)
			}
			if d := DiffTrees(got, want.Flatten()); d != "" {
				return failf("C06/"+clause, when, "%s: remote tree: %s", when, d)
			}
			return nil
		}
		// commit performs one Commit and judges it; returns false when the history ends here
		commit := func(when string) bool {
			firedBefore := len(st.Fired)
			err := cache.Commit()
			faulted := len(st.Fired) > firedBefore
			switch {
			case faulted && err == nil:
				ex.fail = failf("C06/commit-swallowed-failure", st.Fired[firedBefore].Kind, "%s: a remote %s during Commit (%s) was not reported: Commit returned nil", when, st.Fired[firedBefore].Kind, st.Fired[firedBefore].Op)
				return false
			case faulted:
				dirty = true
				return true
			case err != nil && dirty:
				ex.fail = failf("C06/recovery-commit-failed", st.Fired[len(st.Fired)-1].Kind, "%s: after a %s at %s the following fault-free Commit failed: %v", when, st.Fired[len(st.Fired)-1].Kind, st.Fired[len(st.Fired)-1].Op, err)
				return false
			case err != nil:
				// a Commit that fails with no fault at all: only "nothing outside the journalled paths changed" could be judged; stop
				env.Count("probe.fault-free-commit-failed")
				ex.cut = true
				return false
			}
			clause, label := "remote-differs-after-commit", "after-commit"
			if dirty {
				clause, label = "remote-differs-after-recovery", "after-recovery-commit"
			}
			if f := checkRemote(model, label, clause); f != nil {
				if dirty {
					f.Key = st.Fired[len(st.Fired)-1].Kind
					f.Msg = fmt.Sprintf("%s: after a %s at %s and a fault-free Commit: %s", when, st.Fired[len(st.Fired)-1].Kind, st.Fired[len(st.Fired)-1].Op, f.Msg)
				} else {
					f.Msg = when + ": " + f.Msg
				}
				ex.fail = f
				return false
			}
			dirty = false
			committed = model.Clone()
			return true
		}
		commitPoints := map[int]bool{}
		for _, c := range in.Commits {
			commitPoints[c] = true
		}
		for i, op := range in.Ops {
			if ex.fail = h.step(i, op); ex.fail != nil {
				return
			}
			if h.cut {
				ex.cut = true
				return
			}
			if !dirty {
				if f := checkRemote(committed, "before-commit", "remote-modified-before-commit"); f != nil {
					f.Msg = fmt.Sprintf("after op %d %s: %s", i, op, f.Msg)
					ex.fail = f
					return
				}
			}
			if commitPoints[i] {
				start := st.Pos
				if !commit(fmt.Sprintf("Commit after op %d", i)) {
					return
				}
				ex.ranges = append(ex.ranges, [2]int{start, st.Pos})
			}
		}
		ex.lastStart = st.Pos
		if !commit("last Commit") {
			return
		}
		ex.positions = st.Pos - ex.lastStart
		if dirty {
			// faults stop; a later Commit must succeed and bring the remote to the model tree
			st.FailAt = map[int]string{}
			if second >= 0 {
				// the recovery Commit fails as well (its second-th remote call); the one after must converge
				st.FailAt[st.Pos+second] = ""
			}
			if !commit("Commit after the failed one") {
				return
			}
			if dirty {
				env.Count("probe.two-commits-in-a-row-failed")
				st.FailAt = map[int]string{}
				if !commit("Commit after two failed ones") {
					return
				}
			}
		}
		ex.fired = len(st.Fired)
		if failAt < 0 {
			ex.trace = append([]string(nil), st.Trace...)
		}
	})
	if f := env.SimFailure("C06", res); f != nil && ex.fail == nil {
		ex.fail = f
	}
	return
}

func c06Run(inI interface{}, env *Env) *Failure {
	in := inI.(*cacheIn)
	env.Count("nontrivial")
	mark := env.Mark()
	dry := c06Execute(in, env, -1, "", -1)
	seg := env.Segment(mark)
	if dry.fail != nil {
		return dry.fail
	}
	if dry.cut {
		env.Count("probe.history-cut")
		return nil
	}
	if in.Light {
		env.Count("probe.fault-free-histories-without-enumeration")
		return nil
	}
	env.CountN("commit.remote-io-positions", dry.positions)
	faulted := func(pos int, where string) *Failure {
		kinds := []string{""}
		if pos < len(dry.trace) && strings.HasPrefix(dry.trace[pos], "Write ") {
			kinds = []string{"", "torn"}
		}
		type plan struct {
			kind   string
			second int
		}
		var plans []plan
		for _, k := range kinds {
			plans = append(plans, plan{k, -1})
		}
		if where == "last Commit" {
			plans = append(plans, plan{"", env.Draw(8)}) // and the recovery Commit fails too
		}
		for _, pl := range plans {
			k := pl.kind
			var ex c06Exec
			env.WithReplay(seg, func() { ex = c06Execute(in, env, pos, k, pl.second) })
			env.Count("faulted-executions")
			if ex.fired == 0 && ex.fail == nil && !ex.cut {
				env.Count("probe.faulted-position-not-reached")
			}
			if ex.fail != nil {
				ex.fail.Msg = fmt.Sprintf("[fault at remote I/O position %d, %s] %s", pos, where, ex.fail.Msg)
				if pl.second >= 0 {
					ex.fail.Msg = fmt.Sprintf("[and at call %d of the recovery Commit] %s", pl.second, ex.fail.Msg)
				}
				return ex.fail
			}
		}
		return nil
	}
	// every position of the last Commit
	for pos := dry.lastStart; pos < dry.lastStart+dry.positions && pos < dry.lastStart+120; pos++ {
		if f := faulted(pos, "last Commit"); f != nil {
			return f
		}
	}
	// sampled positions of the intermediate Commits: the history goes on after the failure
	for _, rg := range dry.ranges {
		for k := 0; k < 4 && rg[1] > rg[0]; k++ {
			if f := faulted(rg[0]+env.Draw(rg[1]-rg[0]), "intermediate Commit"); f != nil {
				return f
			}
		}
	}
	return nil
}

func init() {
	register(&Prop{
		ID:     "C06",
		Level:  "fault_enumeration",
		Gen:    c06Gen,
		New:    func() interface{} { return &cacheIn{} },
		Run:    c06Run,
		Shrink: cacheShrink,
		Rule: "one case = (initial remote tree <=8 nodes, 1-25 cache operations on overlapping pool paths, optional intermediate Commits); seven cases in eight are executed fault-free only; for the others: execution 0 fault-free (remote untouched before Commit, remote = model after), then the final Commit is re-executed once per remote I/O position x applicable fault kind (op-error, read/write-error, torn-write, close-error): EVERY position of that Commit is faulted, once more with a second fault in the recovery Commit (two failed Commits in a row, then a fault-free one); journal iteration order inside Commit is a seeded choice; " +
			"every case is non-trivial; distinct = distinct (remote tree, operations, commit points)",
		Real:        []string{"filesystem/fscache (Cache, Commit)", "filesystem/fshelper (StreamCopy, Copier, Copy incl. fsloop, SubFS)", "memfs buffer and memfs remote"},
		Stub:        []string{"FaultFS around the remote", "sync primitives, scheduler, clock (simrt)"},
		Assumptions: []string{
			"the model applies an operation only if the cache reported success; a history is cut at the first operation the cache accepted although no direct application exists for it, and at a Commit that fails without an injected fault",
			"positions of a faulted re-execution are those of the dry run; when the seeded journal order makes the faulted position unreachable nothing is judged for that position",
		},
	})
}
