package simcheck

import (
	"fmt"
	"reflect"
	"sort"

	"github.com/goatcms/goatcore/app"
	"github.com/goatcms/goatcore/app/dependency"
)

// C10 — dependency container: lazy singletons, fixed precedence, safe failure.
//
// A program = definitions (Set / SetDefault / AddFactory / AddDefaultFactory) over a pool
// of 5 names in any order (at most one explicit and one default definition per name), a
// dependency graph realised by generated factories (edges resolved by Get or by InjectTo
// into a reflect.StructOf struct with required and '?'-optional tags; factories count their
// invocations and fail on chosen invocations - transient failures), then 1-20 requests
// (Get, InjectTo, Keys, late definitions).  A reference model of the statement predicts the
// outcome of every request from the definitions, the memoised instances and the failure
// plan only.  Single task; the fault dimension is the factory failure plan.

type c10Edge struct {
	To       int  `json:"to"`
	Optional bool `json:"optional,omitempty"` // only through InjectTo
	ViaGet   bool `json:"via_get,omitempty"`
}

type c10Def struct {
	Name    int       `json:"name"`
	Kind    string    `json:"kind"` // Set SetDefault AddFactory AddDefaultFactory
	Edges   []c10Edge `json:"edges,omitempty"`
	FailOn  []int     `json:"fail_on,omitempty"`  // invocation numbers (1-based) on which the factory fails
	NilOn   []int     `json:"nil_on,omitempty"`   // invocation numbers on which it returns (nil, nil)
}

type c10Req struct {
	Kind   string    `json:"kind"` // Get InjectTo Keys Define
	Name   int       `json:"name,omitempty"`
	Fields []c10Edge `json:"fields,omitempty"` // InjectTo
	Def    *c10Def   `json:"def,omitempty"`    // Define (late definition)
}

type c10In struct {
	Defs []c10Def `json:"defs"`
	Reqs []c10Req `json:"reqs"`
}

const c10Names = 5

func c10Name(i int) string { return fmt.Sprintf("dep%d", i) }

func c10GenDef(r *Rand, name int, kind string) c10Def {
	d := c10Def{Name: name, Kind: kind}
	if kind == "AddFactory" || kind == "AddDefaultFactory" {
		for k, n := 0, r.Intn(3); k < n; k++ {
			e := c10Edge{To: r.Intn(c10Names)}
			if r.Chance(1, 2) {
				e.ViaGet = true
			} else {
				e.Optional = r.Chance(1, 3)
			}
			d.Edges = append(d.Edges, e)
		}
		if r.Chance(1, 4) {
			d.FailOn = append(d.FailOn, 1+r.Intn(2))
		}
		if r.Chance(1, 12) {
			d.NilOn = append(d.NilOn, 1+r.Intn(2))
		}
	}
	return d
}

func c10Gen(r *Rand, tier string) interface{} {
	in := &c10In{}
	for n := 0; n < c10Names; n++ {
		if r.Chance(3, 4) {
			in.Defs = append(in.Defs, c10GenDef(r, n, []string{"Set", "AddFactory", "AddFactory"}[r.Intn(3)]))
		}
		if r.Chance(1, 2) {
			in.Defs = append(in.Defs, c10GenDef(r, n, []string{"SetDefault", "AddDefaultFactory", "AddDefaultFactory"}[r.Intn(3)]))
		}
	}
	// any registration order
	for i := len(in.Defs) - 1; i > 0; i-- {
		j := r.Intn(i + 1)
		in.Defs[i], in.Defs[j] = in.Defs[j], in.Defs[i]
	}
	for k, n := 0, 1+r.Intn(20); k < n; k++ {
		switch r.Intn(10) {
		case 0:
			in.Reqs = append(in.Reqs, c10Req{Kind: "Keys"})
		case 1:
			d := c10GenDef(r, r.Intn(c10Names), []string{"Set", "SetDefault", "AddFactory", "AddDefaultFactory"}[r.Intn(4)])
			in.Reqs = append(in.Reqs, c10Req{Kind: "Define", Def: &d})
		case 2, 3, 4:
			rq := c10Req{Kind: "InjectTo"}
			for f, m := 0, 1+r.Intn(3); f < m; f++ {
				rq.Fields = append(rq.Fields, c10Edge{To: r.Intn(c10Names + 1), Optional: r.Chance(1, 2)}) // name 5 is never defined
			}
			in.Reqs = append(in.Reqs, rq)
		default:
			in.Reqs = append(in.Reqs, c10Req{Kind: "Get", Name: r.Intn(c10Names + 1)})
		}
	}
	return in
}

type c10Inst struct {
	name   int
	serial int
	from   string
}

// model of the statement
type c10Model struct {
	explicit, deflt map[int]*c10Def
	memo            map[int]bool
	invocations     map[string]int // per definition (name/kind)
	frozen          bool
	defined         map[int]bool
}

func c10DefKey(d *c10Def) string { return fmt.Sprintf("%d/%s", d.Name, d.Kind) }

func (m *c10Model) effective(name int) *c10Def {
	if d := m.explicit[name]; d != nil {
		return d
	}
	return m.deflt[name]
}

// resolve returns whether the request for name succeeds (memoising like the statement says).
func (m *c10Model) resolve(name int, stack []int) bool {
	for _, s := range stack {
		if s == name {
			return false // cycle: error instead of recursion
		}
	}
	if m.memo[name] {
		return true
	}
	d := m.effective(name)
	if d == nil {
		return false
	}
	if d.Kind == "Set" || d.Kind == "SetDefault" {
		m.memo[name] = true
		return true
	}
	m.invocations[c10DefKey(d)]++
	inv := m.invocations[c10DefKey(d)]
	stack = append(stack, name)
	for _, e := range d.Edges {
		ok := m.resolve(e.To, stack)
		if !ok && !(e.Optional && !e.ViaGet) {
			return false
		}
	}
	for _, f := range d.FailOn {
		if f == inv {
			return false
		}
	}
	for _, f := range d.NilOn {
		if f == inv {
			return false
		}
	}
	m.memo[name] = true
	return true
}

func c10Run(inI interface{}, env *Env) *Failure {
	in := inI.(*c10In)
	env.Count("nontrivial")
	dp := dependency.NewProvider("dependency")
	// a second provider of the same process with another tag name, used on the same struct
	// types first: whatever a provider learns about a struct type must not leak into a
	// provider that reads other tags
	primer := dependency.NewProvider("inject")
	for n := 0; n < c10Names; n++ {
		_ = primer.SetDefault(c10Name(n), fmt.Sprintf("primer-%s", c10Name(n)))
	}
	model := &c10Model{explicit: map[int]*c10Def{}, deflt: map[int]*c10Def{}, memo: map[int]bool{}, invocations: map[string]int{}, defined: map[int]bool{}}
	actualInv := map[string]int{}
	instances := map[int]interface{}{} // first instance handed out per name
	serial := 0
	depth := 0
	var runaway bool
	makeStruct := func(fields []c10Edge) reflect.Value {
		var sf []reflect.StructField
		for i, f := range fields {
			tag := c10Name(f.To)
			if f.Optional {
				tag = "?" + tag
			}
			sf = append(sf, reflect.StructField{Name: fmt.Sprintf("F%d", i), Type: reflect.TypeOf((*interface{})(nil)).Elem(), Tag: reflect.StructTag(fmt.Sprintf(`dependency:"%s" inject:"?%s"`, tag, c10Name((f.To+1+i)%c10Names)))})
		}
		t := reflect.StructOf(sf)
		_ = primer.InjectTo(reflect.New(t).Interface())
		return reflect.New(t)
	}
	var mkFactory func(d *c10Def) app.Factory
	mkFactory = func(d *c10Def) app.Factory {
		return func(p app.DependencyProvider) (interface{}, error) {
			actualInv[c10DefKey(d)]++
			inv := actualInv[c10DefKey(d)]
			depth++
			defer func() { depth-- }()
			if depth > 40 {
				runaway = true
				return nil, fmt.Errorf("runaway recursion stopped by the harness")
			}
			for _, e := range d.Edges {
				if e.ViaGet {
					if _, err := p.Get(c10Name(e.To)); err != nil {
						return nil, err
					}
				} else {
					st := makeStruct([]c10Edge{e})
					if err := p.InjectTo(st.Interface()); err != nil {
						return nil, err
					}
				}
			}
			for _, f := range d.FailOn {
				if f == inv {
					env.Count("fault.factory-failure")
					return nil, fmt.Errorf("injected failure of factory %s (invocation %d)", c10DefKey(d), inv)
				}
			}
			for _, f := range d.NilOn {
				if f == inv {
					env.Count("fault.factory-returns-nil")
					return nil, nil
				}
			}
			serial++
			return &c10Inst{name: d.Name, serial: serial, from: d.Kind}, nil
		}
	}
	define := func(d *c10Def) error {
		switch d.Kind {
		case "Set":
			serial++
			return dp.Set(c10Name(d.Name), &c10Inst{name: d.Name, serial: serial, from: "Set"})
		case "SetDefault":
			serial++
			return dp.SetDefault(c10Name(d.Name), &c10Inst{name: d.Name, serial: serial, from: "SetDefault"})
		case "AddFactory":
			return dp.AddFactory(c10Name(d.Name), mkFactory(d))
		default:
			return dp.AddDefaultFactory(c10Name(d.Name), mkFactory(d))
		}
	}
	for i := range in.Defs {
		d := &in.Defs[i]
		if err := define(d); err != nil {
			return failf("C10/definition-refused", d.Kind, "definition %d (%s of %s) was refused before any resolution: %v", i, d.Kind, c10Name(d.Name), err)
		}
		model.defined[d.Name] = true
		if d.Kind == "Set" || d.Kind == "AddFactory" {
			model.explicit[d.Name] = d
		} else {
			model.deflt[d.Name] = d
		}
	}
	checkInst := func(ri int, name int, got interface{}) *Failure {
		inst, ok := got.(*c10Inst)
		if !ok || inst == nil {
			return failf("C10/wrong-instance", "", "request %d: %s resolved to %#v", ri, c10Name(name), got)
		}
		if inst.name != name {
			return failf("C10/wrong-instance", "", "request %d: %s resolved to an instance built for %s", ri, c10Name(name), c10Name(inst.name))
		}
		eff := model.effective(name)
		if eff != nil && inst.from != eff.Kind {
			return failf("C10/precedence", eff.Kind+"-vs-"+inst.from, "request %d: %s is defined by %s (explicit beats default) but the instance comes from %s", ri, c10Name(name), eff.Kind, inst.from)
		}
		if first, seen := instances[name]; seen {
			if first != got {
				return failf("C10/not-a-singleton", "", "request %d: %s yielded a different instance (serial %d) than before (serial %d)", ri, c10Name(name), inst.serial, first.(*c10Inst).serial)
			}
		} else {
			instances[name] = got
		}
		return nil
	}
	for ri, rq := range in.Reqs {
		switch rq.Kind {
		case "Keys":
			keys, err := dp.Keys()
			if err != nil {
				return failf("C10/keys", "", "request %d: Keys failed: %v", ri, err)
			}
			got := map[string]bool{}
			for _, k := range keys {
				if got[k] {
					return failf("C10/keys", "duplicate", "request %d: Keys lists %s twice: %v", ri, k, keys)
				}
				got[k] = true
			}
			for n := range model.defined {
				if !got[c10Name(n)] {
					return failf("C10/keys", "missing", "request %d: Keys %v lacks the defined name %s", ri, keys, c10Name(n))
				}
			}
			if len(got) != len(model.defined) {
				return failf("C10/keys", "extra", "request %d: Keys %v lists names that were never defined", ri, keys)
			}
		case "Define":
			err := define(rq.Def)
			if model.frozen && err == nil {
				return failf("C10/late-definition-accepted", rq.Def.Kind, "request %d: %s of %s was accepted after the first resolution", ri, rq.Def.Kind, c10Name(rq.Def.Name))
			}
			if !model.frozen {
				// a definition before the first resolution: same rules as the initial ones; duplicates of the same kind are outside the statement
				d := rq.Def
				isExplicit := d.Kind == "Set" || d.Kind == "AddFactory"
				if (isExplicit && model.explicit[d.Name] != nil) || (!isExplicit && model.deflt[d.Name] != nil) {
					if err == nil {
						env.Count("probe.not-judged:duplicate definition accepted")
						// unspecified which one wins: stop judging this program
						return nil
					}
					continue
				}
				if err != nil {
					return failf("C10/definition-refused", d.Kind, "request %d: %s of %s refused before any resolution: %v", ri, d.Kind, c10Name(d.Name), err)
				}
				model.defined[d.Name] = true
				if isExplicit {
					model.explicit[d.Name] = d
				} else {
					model.deflt[d.Name] = d
				}
			}
		case "Get":
			model.frozen = true
			want := model.resolve(rq.Name, nil)
			got, err := dp.Get(c10Name(rq.Name))
			if runaway {
				return failf("C10/runaway-recursion", "", "request %d: Get(%s) recursed more than 40 factory calls deep", ri, c10Name(rq.Name))
			}
			if want != (err == nil) {
				return failf("C10/wrong-outcome", fmt.Sprintf("Get/want-ok=%v", want), "request %d: Get(%s) err=%v, the model says success=%v (memo %v)", ri, c10Name(rq.Name), err, want, c10Memo(model))
			}
			if err == nil {
				if f := checkInst(ri, rq.Name, got); f != nil {
					return f
				}
			}
		case "InjectTo":
			model.frozen = true
			st := makeStruct(rq.Fields)
			err := dp.InjectTo(st.Interface())
			if runaway {
				return failf("C10/runaway-recursion", "", "request %d: InjectTo recursed more than 40 factory calls deep", ri)
			}
			wantOK := true
			var wantSet []bool
			for _, f := range rq.Fields {
				ok := model.resolve(f.To, nil)
				wantSet = append(wantSet, ok)
				if !ok && !f.Optional {
					wantOK = false
					break
				}
			}
			if wantOK != (err == nil) {
				return failf("C10/wrong-outcome", fmt.Sprintf("InjectTo/want-ok=%v", wantOK), "request %d: InjectTo(%v) err=%v, the model says success=%v (memo %v)", ri, rq.Fields, err, wantOK, c10Memo(model))
			}
			for i := range wantSet {
				fv := st.Elem().Field(i)
				if wantSet[i] {
					if fv.IsNil() {
						return failf("C10/field-not-injected", "", "request %d: field %d (%s) stayed nil although the dependency resolves", ri, i, c10Name(rq.Fields[i].To))
					}
					if f := checkInst(ri, rq.Fields[i].To, fv.Interface()); f != nil {
						return f
					}
				} else if !fv.IsNil() {
					return failf("C10/field-injected-from-failed-resolution", "", "request %d: field %d (%s) was set although the resolution fails", ri, i, c10Name(rq.Fields[i].To))
				}
			}
		}
		// factories run only when needed and never again after success
		for k, n := range actualInv {
			if n != model.invocations[k] {
				return failf("C10/factory-invocations", "", "after request %d (%s): factory %s ran %d times, the model says %d (memo %v)", ri, rq.Kind, k, n, model.invocations[k], c10Memo(model))
			}
		}
		for k, n := range model.invocations {
			if actualInv[k] != n {
				return failf("C10/factory-invocations", "", "after request %d (%s): factory %s ran %d times, the model says %d", ri, rq.Kind, k, actualInv[k], n)
			}
		}
	}
	return nil
}

func c10Memo(m *c10Model) []int {
	var out []int
	for k := range m.memo {
		out = append(out, k)
	}
	sort.Ints(out)
	return out
}

func c10Shrink(inI interface{}) []interface{} {
	in := inI.(*c10In)
	var out []interface{}
	cp := func() *c10In {
		c := &c10In{}
		for _, d := range in.Defs {
			d.Edges = append([]c10Edge(nil), d.Edges...)
			d.FailOn = append([]int(nil), d.FailOn...)
			d.NilOn = append([]int(nil), d.NilOn...)
			c.Defs = append(c.Defs, d)
		}
		for _, q := range in.Reqs {
			q.Fields = append([]c10Edge(nil), q.Fields...)
			c.Reqs = append(c.Reqs, q)
		}
		return c
	}
	for i := range in.Reqs {
		c := cp()
		c.Reqs = append(c.Reqs[:i], c.Reqs[i+1:]...)
		out = append(out, c)
	}
	for i := range in.Defs {
		c := cp()
		c.Defs = append(c.Defs[:i], c.Defs[i+1:]...)
		out = append(out, c)
	}
	for i, d := range in.Defs {
		for j := range d.Edges {
			c := cp()
			c.Defs[i].Edges = append(c.Defs[i].Edges[:j], c.Defs[i].Edges[j+1:]...)
			out = append(out, c)
		}
		if len(d.FailOn) > 0 {
			c := cp()
			c.Defs[i].FailOn = nil
			out = append(out, c)
		}
		if len(d.NilOn) > 0 {
			c := cp()
			c.Defs[i].NilOn = nil
			out = append(out, c)
		}
	}
	for i, q := range in.Reqs {
		for j := range q.Fields {
			if len(q.Fields) > 1 {
				c := cp()
				c.Reqs[i].Fields = append(c.Reqs[i].Fields[:j], c.Reqs[i].Fields[j+1:]...)
				out = append(out, c)
			}
		}
	}
	return out
}

func init() {
	register(&Prop{
		ID:     "C10",
		Level:  "exploration",
		Gen:    c10Gen,
		New:    func() interface{} { return &c10In{} },
		Run:    c10Run,
		Shrink: c10Shrink,
		Rule: "one case = a program of definitions over 5 names in random registration order (<=1 explicit and <=1 default per name; factories with 0-2 edges resolved by Get or by InjectTo with required / optional tags; transient failures and nil results on chosen invocations; acyclic, cyclic and self-loop graphs arise) + 1-20 requests (Get, InjectTo into a generated struct, Keys, late definitions); a reference model predicts every outcome, every instance identity and every factory invocation count; " +
			"every case is non-trivial; distinct = distinct program. No schedule exists for this property (the provider is single-threaded by contract); the fault dimension is the factory failure plan.",
		Real:        []string{"app/dependency (Provider: Get, InjectTo, Set, SetDefault, AddFactory, AddDefaultFactory, Keys, Block)"},
		Stub:        []string{"generated factories (probes with a failure plan and a recursion depth guard)"},
		Assumptions: []string{"two explicit or two default definitions of one name are outside the statement: such a program is not judged beyond the duplicate"},
	})
}
