package simcheck

import (
	"crypto/md5"
	"bytes"
	"fmt"
	"strings"

	"github.com/goatcms/goatcore/filesystem"
	"github.com/goatcms/goatcore/filesystem/filespace/encryptfs"
	"github.com/goatcms/goatcore/varutil/idutil"
)

// C05 — encrypted filespace: round trip, secrecy, integrity, no crash on bad data.
//
// One case = (cipher, base backend, secret, salt, host binding, plaintext, write path, prior
// stored state). The file is written through one EncryptFS and read back through a second
// one with equal settings by ReadFile and by Reader.  Then the stored bytes are attacked:
// EVERY truncation length and EVERY single-byte flip (stored size <= 320 bytes; sampled
// positions above), emptied file, and reads with another secret, salt, host-binding
// setting, host id and the other cipher's framing.  Every attacked read must return an
// error: never data, never a panic.  A short name-space history through the encrypted view
// is refined against ModelTree like C01.

type c05In struct {
	Cipher   string `json:"cipher"` // aes | ext
	Disk     bool   `json:"disk"`
	Secret   string `json:"secret"`
	Salt     string `json:"salt"`
	HostOnly bool   `json:"host_only"`
	Plain    string `json:"plain"`
	Big      int    `json:"big,omitempty"` // when > 0 the plaintext is Plain repeated to this size
	Via      string `json:"via"`           // WriteFile | Writer
	Chunks   []int  `json:"chunks,omitempty"`
	Prior    string `json:"prior"` // "-" none, else plaintext of an earlier (longer/shorter) version
	Ops      []FsOp `json:"ops,omitempty"`
	ManyWrites bool `json:"many_writes,omitempty"` // additionally 70 000 writes of the same data, all stored bytes must differ
}

const c05Marker = "MARKER-7f3a9c51e2d84b06-PLAINTEXT"

func c05Gen(r *Rand, tier string) interface{} {
	in := &c05In{Cipher: []string{"aes", "ext"}[r.Intn(2)], Disk: r.Chance(1, 4), HostOnly: r.Chance(1, 3)}
	in.Secret = []string{"", "s", "correct horse battery staple"}[r.Intn(3)]
	in.Salt = []string{"", "NaCl", strings.Repeat("salt", 20)}[r.Intn(3)]
	in.ManyWrites = !in.Disk && r.Chance(1, 400)
	switch r.Intn(7) {
	case 0:
		in.Plain = ""
	case 1:
		in.Plain = "x"
	case 2:
		in.Plain = c05Marker
	case 3:
		// around cipher block and buffer boundaries
		in.Plain = (c05Marker + strings.Repeat("b", 5000))[:r.Pick(15, 16, 17, 31, 32, 33, 47, 48, 4095, 4096, 4097)]
	default:
		in.Plain = c05Marker + genContent(r, ":")
	}
	if tier == "thorough" && r.Chance(1, 200) {
		in.Big = 1 << 20
	}
	in.Via = []string{"WriteFile", "Writer"}[r.Intn(2)]
	for k := r.Intn(4); k > 0; k-- {
		in.Chunks = append(in.Chunks, r.Pick(0, 1, 5, 64, 1000))
	}
	switch r.Intn(3) {
	case 0:
		in.Prior = "-"
	case 1:
		in.Prior = "short"
	default:
		in.Prior = strings.Repeat("a much longer earlier version ", 3+len(in.Plain)/20)
	}
	if r.Chance(1, 3) {
		in.Ops = genFsOps(r, 1+r.Intn(10), nil, false, nil)
	}
	return in
}

// settings builds the settings of one instance. All instances of a run take their secret
// from ONE shared byte slice with spare capacity (as a program holding its configured secret
// in a buffer would): an instance that appends to the caller's slice instead of copying it
// corrupts the key material of the instances created before it.
func (in *c05In) settings(shared *[]byte, cipher string, secret, salt string, hostOnly bool) encryptfs.Settings {
	if *shared == nil {
		*shared = make([]byte, 0, 256)
	}
	sec := append((*shared)[:0], secret...)
	return encryptfs.Settings{Secret: sec[:len(secret):cap(sec)], Salt: []byte(salt), HostOnly: hostOnly, Cipher: cipherFor(map[string]string{"aes": "enc-aes", "ext": "enc-ext"}[cipher])}
}

func c05Run(inI interface{}, env *Env) *Failure {
	in := inI.(*c05In)
	env.Count("nontrivial")
	kind := "mem"
	if in.Disk {
		kind = "disk"
	}
	b := newBackend(kind, nil, false)
	defer b.cleanup()
	raw := b.raw
	var shared []byte
	mk := func(cipher, secret, salt string, hostOnly bool) filesystem.Filespace {
		if secret != in.Secret {
			// a different secret lives in its own buffer; the shared one belongs to the configured secret
			var own []byte
			fs, err := encryptfs.NewEncryptFS(raw, in.settings(&own, cipher, secret, salt, hostOnly))
			if err != nil {
				panic(harnessTrouble{err.Error()})
			}
			return fs
		}
		fs, err := encryptfs.NewEncryptFS(raw, in.settings(&shared, cipher, secret, salt, hostOnly))
		if err != nil {
			panic(harnessTrouble{err.Error()})
		}
		return fs
	}
	key := in.Cipher + "/" + in.Via
	w := mk(in.Cipher, in.Secret, in.Salt, in.HostOnly)
	rd := mk(in.Cipher, in.Secret, in.Salt, in.HostOnly)
	plain := in.Plain
	if in.Big > 0 {
		plain = strings.Repeat(in.Plain+"#", in.Big/(len(in.Plain)+1)+1)[:in.Big]
	}
	path := "dir/secret.bin"
	if err := raw.MkdirAll("dir", filesystem.DefaultUnixDirMode); err != nil {
		panic(harnessTrouble{err.Error()})
	}
	if in.Prior != "-" {
		if r := RunFsOp(w, FsOp{Kind: "WriteFile", Path: path, Data: in.Prior}); r.Err != nil || r.Panic != "" {
			return failf("C05/write-refused", key, "prior WriteFile failed: %v %s", r.Err, r.Panic)
		}
	}
	if r := RunFsOp(w, FsOp{Kind: in.Via, Path: path, Data: plain, Chunks: in.Chunks}); r.Err != nil || r.Panic != "" {
		return failf("C05/write-refused", key, "%s failed: %v %s", in.Via, r.Err, r.Panic)
	}
	stored, err := raw.ReadFile(path)
	if err != nil {
		return failf("C05/write-refused", key, "nothing stored: %v", err)
	}
	// round trip through both read paths of a second instance
	for _, k := range []string{"ReadFile", "Reader"} {
		r := RunFsOp(rd, FsOp{Kind: k, Path: path, Chunks: []int{7, 64}})
		if r.Panic != "" {
			return failf("C05/panic", key+"/"+k, "%s of freshly written data panicked: %s", k, r.Panic)
		}
		if r.Err != nil {
			return failf("C05/round-trip", key+"/"+k, "%s failed on freshly written data: %v", k, r.Err)
		}
		if !bytes.Equal(r.Data, []byte(plain)) {
			return failf("C05/round-trip", key+"/"+k, "%s returned %s, written %s", k, short(string(r.Data)), short(plain))
		}
	}
	// secrecy
	if len(plain) >= 8 && bytes.Contains(stored, []byte(plain[:8])) && strings.Contains(plain, c05Marker) {
		return failf("C05/plaintext-stored", key, "the stored bytes contain the plaintext marker")
	}
	// two writes of equal data give different stored bytes
	if r := RunFsOp(w, FsOp{Kind: in.Via, Path: "dir/second.bin", Data: plain, Chunks: in.Chunks}); r.Err != nil || r.Panic != "" {
		return failf("C05/write-refused", key, "second write failed: %v %s", r.Err, r.Panic)
	}
	if second, _ := raw.ReadFile("dir/second.bin"); bytes.Equal(second, stored) {
		return failf("C05/deterministic-ciphertext", key, "two writes of the same data produced identical stored bytes (%d bytes)", len(stored))
	}
	// ... and so do any two of many writes: a nonce that comes from a counter of limited width
	// or a generator with a short period repeats only after tens of thousands of encryptions
	if in.ManyWrites {
		env.Count("probe.70000-writes-of-the-same-data")
		seen := make(map[[16]byte]int, 70000)
		small := plain
		if len(small) > 24 {
			small = small[:24]
		}
		for i := 0; i < 70000; i++ {
			if err := w.WriteFile("dir/many.bin", []byte(small), filesystem.DefaultUnixFileMode); err != nil {
				return failf("C05/write-refused", key, "write %d of the same data failed: %v", i, err)
			}
			st, err := raw.ReadFile("dir/many.bin")
			if err != nil {
				panic(harnessTrouble{err.Error()})
			}
			h := md5.Sum(st)
			if j, dup := seen[h]; dup {
				return failf("C05/deterministic-ciphertext", key+"/many", "writes %d and %d of the same data produced identical stored bytes (%d bytes)", j, i, len(st))
			}
			seen[h] = i
		}
	}
	// attacks on the stored bytes
	attack := func(what string, mutated []byte, reader filesystem.Filespace) *Failure {
		if r := RunFsOp(raw, FsOp{Kind: "WriteFile", Path: "dir/attacked.bin", Data: string(mutated)}); r.Err != nil || r.Panic != "" {
			if strings.Contains(r.Panic, "self-deadlock") {
				return failf("C05/stream-left-open-after-error", in.Cipher, "after a rejected read the stored file can no longer be written: its stream was left open (%s)", r.Panic)
			}
			panic(harnessTrouble{fmt.Sprint(r.Err, r.Panic)})
		}
		for _, k := range []string{"ReadFile", "Reader"} {
			r := RunFsOp(reader, FsOp{Kind: k, Path: "dir/attacked.bin", Chunks: []int{64}})
			env.Count("attacked-reads")
			if r.Panic != "" {
				return failf("C05/panic", in.Cipher+"/"+k+"/"+attackClass(what), "%s of stored bytes with %s panicked: %s", k, what, r.Panic)
			}
			if r.Err == nil {
				return failf("C05/bad-data-accepted", in.Cipher+"/"+k+"/"+attackClass(what), "%s of stored bytes with %s returned data (%s) instead of an error", k, what, short(string(r.Data)))
			}
		}
		return nil
	}
	n := len(stored)
	stride := 1
	if n > 320 {
		stride = 1 + n/160
	}
	for cut := env.Draw(stride); cut < n; cut += stride {
		env.Count("fault.stored-truncate")
		if f := attack(fmt.Sprintf("truncation to %d of %d bytes", cut, n), stored[:cut], rd); f != nil {
			return f
		}
	}
	for pos := env.Draw(stride); pos < n; pos += stride {
		m := append([]byte(nil), stored...)
		m[pos] ^= byte(1 << uint(env.Draw(8)))
		env.Count("fault.stored-flip")
		if f := attack(fmt.Sprintf("byte %d of %d flipped", pos, n), m, rd); f != nil {
			return f
		}
	}
	env.Count("fault.stored-empty")
	if f := attack("all bytes removed (empty file)", nil, rd); f != nil {
		return f
	}
	// other keys
	type other struct {
		what string
		fs   func() filesystem.Filespace
	}
	// secrets and salts that differ from the configured ones in one place only: longer by a
	// byte, or (same length) in the first, the middle or the last byte
	flipAt := func(v string, i int) string {
		b := []byte(v)
		b[i] ^= 0x01
		return string(b)
	}
	others := []other{
		{"another secret", func() filesystem.Filespace { return mk(in.Cipher, in.Secret+"x", in.Salt, in.HostOnly) }},
		{"another salt", func() filesystem.Filespace { return mk(in.Cipher, in.Secret, "x"+in.Salt, in.HostOnly) }},
	}
	// ... or only in outer white space
	for _, ws := range []string{" ", "\n"} {
		ws := ws
		others = append(others,
			other{"another secret", func() filesystem.Filespace { return mk(in.Cipher, in.Secret+ws, in.Salt, in.HostOnly) }},
			other{"another secret", func() filesystem.Filespace { return mk(in.Cipher, ws+in.Secret, in.Salt, in.HostOnly) }},
			other{"another salt", func() filesystem.Filespace { return mk(in.Cipher, in.Secret, in.Salt+ws, in.HostOnly) }})
	}
	if n := len(in.Secret); n > 0 {
		for _, i := range []int{0, n / 2, n - 1} {
			i := i
			others = append(others, other{"another secret", func() filesystem.Filespace { return mk(in.Cipher, flipAt(in.Secret, i), in.Salt, in.HostOnly) }})
		}
	}
	if n := len(in.Salt); n > 0 {
		for _, i := range []int{0, n - 1} {
			i := i
			others = append(others, other{"another salt", func() filesystem.Filespace { return mk(in.Cipher, in.Secret, flipAt(in.Salt, i), in.HostOnly) }})
		}
	}
	for _, o := range others {
		env.Count("fault.wrong-key:" + o.what)
		if f := attack("a reader using "+o.what, stored, o.fs()); f != nil {
			return f
		}
	}
	stillReadable := func(when string) *Failure {
		for _, pv := range []struct {
			name string
			fs   filesystem.Filespace
		}{{"the writing instance", w}, {"the second instance with equal settings", rd}} {
			r := RunFsOp(pv.fs, FsOp{Kind: "ReadFile", Path: path})
			if r.Panic != "" || r.Err != nil || !bytes.Equal(r.Data, []byte(plain)) {
				return failf("C05/round-trip", key+"/after-other-instances", "%s: %s can no longer read its file: err=%v panic=%q data=%s", when, pv.name, r.Err, r.Panic, short(string(r.Data)))
			}
		}
		return nil
	}
	if f := stillReadable("after an instance with another salt was created from the same secret"); f != nil {
		return f
	}
	// The statement's error clause names another secret or salt only. Readers that differ in
	// the host-binding setting, the host id or the cipher framing are exercised for panics;
	// whether they are refused is recorded as a probe, not judged.
	observe := func(what string, reader filesystem.Filespace) *Failure {
		for _, k := range []string{"ReadFile", "Reader"} {
			r := RunFsOp(reader, FsOp{Kind: k, Path: path, Chunks: []int{64}})
			if r.Panic != "" {
				return failf("C05/panic", in.Cipher+"/"+k+"/other-reader", "%s by a reader with %s panicked: %s", k, what, r.Panic)
			}
			if r.Err == nil {
				env.Count("probe.not-judged:reader with " + what + " got the data")
			} else {
				env.Count("probe.not-judged:reader with " + what + " was refused")
			}
		}
		return nil
	}
	if f := observe("the other host-binding setting", mk(in.Cipher, in.Secret, in.Salt, !in.HostOnly)); f != nil {
		return f
	}
	if f := observe("the other cipher's framing", mk(map[string]string{"aes": "ext", "ext": "aes"}[in.Cipher], in.Secret, in.Salt, in.HostOnly)); f != nil {
		return f
	}
	if in.HostOnly {
		old := idutil.SimSetHostID("another-host-0123456789abcdef0123456789abcdef")
		f := observe("another host id", mk(in.Cipher, in.Secret, in.Salt, true))
		idutil.SimSetHostID(old)
		if f != nil {
			return f
		}
	}
	if f := stillReadable("after instances with other settings were created from the same secret"); f != nil {
		return f
	}
	// name-space operations behave as on the underlying filespace (C01 refinement through the view)
	if len(in.Ops) > 0 {
		b2 := newBackend("mem", nil, false)
		var own2 []byte
		enc, err := encryptfs.NewEncryptFS(b2.raw, in.settings(&own2, in.Cipher, in.Secret, in.Salt, in.HostOnly))
		if err != nil {
			panic(harnessTrouble{err.Error()})
		}
		h := &histChecker{prop: "C05", model: NewModelTree(), root: enc, views: []fsView{{fs: enc}}, env: env, noSize: true}
		qr := NewRand(uint64(len(in.Ops))*31 + 5)
		for i, op := range in.Ops {
			if f := h.step(i, op); f != nil {
				return f
			}
			if h.cut {
				break
			}
			if f := h.compareState(i, op, qr); f != nil {
				return f
			}
		}
	}
	return nil
}

func attackClass(what string) string {
	switch {
	case strings.HasPrefix(what, "truncation"):
		return "truncated"
	case strings.HasPrefix(what, "byte"):
		return "flipped"
	case strings.HasPrefix(what, "all bytes"):
		return "emptied"
	}
	return "wrong-key"
}

func c05Shrink(inI interface{}) []interface{} {
	in := inI.(*c05In)
	var out []interface{}
	cp := func() *c05In { c := *in; return &c }
	if len(in.Ops) > 0 {
		c := cp()
		c.Ops = nil
		out = append(out, c)
		for _, x := range fsHistShrink(&fsHistIn{Ops: in.Ops}) {
			c := cp()
			c.Ops = x.(*fsHistIn).Ops
			out = append(out, c)
		}
	}
	if in.Big > 0 {
		c := cp()
		c.Big = 0
		out = append(out, c)
	}
	if len(in.Plain) > len(c05Marker) {
		c := cp()
		c.Plain = c05Marker
		out = append(out, c)
	}
	if in.Plain != "" {
		c := cp()
		c.Plain = ""
		out = append(out, c)
	}
	if in.Prior != "-" {
		c := cp()
		c.Prior = "-"
		out = append(out, c)
	}
	if in.Disk {
		c := cp()
		c.Disk = false
		out = append(out, c)
	}
	if in.HostOnly {
		c := cp()
		c.HostOnly = false
		out = append(out, c)
	}
	if len(in.Chunks) > 0 {
		c := cp()
		c.Chunks = nil
		out = append(out, c)
	}
	return out
}

func init() {
	register(&Prop{
		ID:     "C05",
		Level:  "fault_enumeration",
		Gen:    c05Gen,
		New:    func() interface{} { return &c05In{} },
		Run:    c05Run,
		Shrink: c05Shrink,
		Rule: "one case = (cipher raw AES-GCM / tagged multi-cipher, base memory / disk, secret and salt incl. empty, host binding, plaintext empty / 1 byte / marker + up to 4 KiB (thorough: occasionally 1 MiB), WriteFile or chunked Writer, fresh path or over a shorter / longer earlier version); read back by a second instance through ReadFile and Reader; then EVERY truncation length and EVERY single-byte flip of the stored bytes (every k-th position above 320 stored bytes), the emptied file, and readers with another secret, salt, host-binding setting, host id and the other cipher; optional name-space history refined against the model; " +
			"every case is non-trivial; distinct = distinct input",
		Real:        []string{"filesystem/filespace/encryptfs", "cipherfs/aesgcm256cfs", "cipherfs/extcfs", "memfs / diskfs base", "crypto/aes, crypto/cipher, sha3"},
		Stub:        []string{"host identity seam (generated idutil.SimSetHostID in the scratch copy)", "sync -> simrt (solo mode)"},
		Assumptions: []string{"crypto/rand nonces stay real: attacks are positional so outcomes replay although stored bytes differ between runs", "secrecy is judged by the absence of an 8-byte plaintext prefix / marker in the stored bytes"},
	})
}
