package simcheck

import (
	"strings"
	"errors"
	"fmt"

	"github.com/goatcms/goatcore/app"
	"github.com/goatcms/goatcore/app/scope"
	"github.com/goatcms/goatcore/app/scope/contextscope"
	"simrt"
)

// C11 — scope close protocol: ordered events, commit xor rollback, waits for children.
//
// A tree of up to 6 scopes (depth <= 3, children sharing or isolating the parent's context)
// is built by the main task with recording listeners on the close-protocol events of every
// scope (some listeners return errors). 2-5 actor tasks then perform add-task / done-task /
// append-error / kill / stop and exactly one Close per scope, in any interleaving the
// scheduler produces. Legality rule from the documented contract: once Close has been
// invoked on a scope object no actor calls a mutating method on that object (DoneTask is
// not one: Close waits for it). At quiescence a second Close of a scope must be refused
// loudly without repeating events.

type c11Scope struct {
	Parent    int   `json:"parent"` // -1 for the root
	Isolated  bool  `json:"isolated,omitempty"`
	FailEvent int   `json:"fail_event,omitempty"` // 0 none; else a listener returns an error on this event (index into c11Events, 1-based)
	Tasks     int   `json:"tasks"`                // tasks added to the scope before the actors start
	Many      int   `json:"many,omitempty"`       // >0: that many additional listeners on event ManyEv (1-based) of this scope; each must run when the event fires
	ManyEv    int   `json:"many_ev,omitempty"`
	Reenter   int   `json:"reenter,omitempty"`    // 0 none; else the listener of this event (1-based) calls Close on its own scope again, from inside the running Close
}

type c11Act struct {
	Op    string `json:"op"` // done err kill stop close yield
	Scope int    `json:"scope"`
}

type c11In struct {
	Scopes []c11Scope `json:"scopes"`
	Actors [][]c11Act `json:"actors"`
}

var c11Events = []interface{}{app.BeforeCloseEvent, app.BeforeCommitEvent, app.CommitEvent, app.AfterCommitEvent, app.BeforeRollbackEvent, app.RollbackEvent, app.AfterRollbackEvent, app.AfterCloseEvent}
var c11EventNames = []string{"before-close", "before-commit", "commit", "after-commit", "before-rollback", "rollback", "after-rollback", "after-close"}

func c11Depth(in *c11In, s int) int {
	d := 0
	for in.Scopes[s].Parent >= 0 {
		s = in.Scopes[s].Parent
		d++
	}
	return d
}

func c11Gen(r *Rand, tier string) interface{} {
	in := &c11In{}
	n := 1 + r.Intn(6)
	if r.Chance(1, 30) {
		n = 7 + r.Intn(6)
	}
	for i := 0; i < n; i++ {
		sc := c11Scope{Parent: -1, Tasks: r.Intn(3)}
		if i > 0 {
			for {
				sc.Parent = r.Intn(i)
				if c11Depth(in, sc.Parent) < 3 {
					break
				}
			}
			sc.Isolated = r.Chance(1, 4)
		}
		if r.Chance(1, 6) {
			sc.FailEvent = 1 + r.Intn(len(c11Events))
		}
		if r.Chance(1, 8) {
			sc.Reenter = 1 + r.Intn(len(c11Events))
		}
		if r.Chance(1, 10) {
			sc.Many, sc.ManyEv = r.Pick(2, 7, 8, 9, 12, 17, 33), 1+r.Intn(len(c11Events))
		}
		in.Scopes = append(in.Scopes, sc)
	}
	na := 2 + r.Intn(4)
	in.Actors = make([][]c11Act, na)
	// non-close operations
	for s, sc := range in.Scopes {
		for t := 0; t < sc.Tasks; t++ {
			a := r.Intn(na)
			in.Actors[a] = append(in.Actors[a], c11Act{"done", s})
		}
		if r.Chance(1, 3) {
			a := r.Intn(na)
			in.Actors[a] = append(in.Actors[a], c11Act{[]string{"err", "err", "kill", "stop"}[r.Intn(4)], s})
		}
	}
	for a := range in.Actors {
		l := in.Actors[a]
		for i := len(l) - 1; i > 0; i-- {
			j := r.Intn(i + 1)
			l[i], l[j] = l[j], l[i]
		}
		for k := r.Intn(3); k > 0; k-- {
			pos := r.Intn(len(l) + 1)
			l = append(l[:pos], append([]c11Act{{"yield", 0}}, l[pos:]...)...)
		}
		in.Actors[a] = l
	}
	// closes: every scope once; inside one actor deepest first (an actor blocked in the Close
	// of a scope must not be the one who still has to close a descendant)
	closer := make([][]int, na)
	for s := range in.Scopes {
		a := r.Intn(na)
		closer[a] = append(closer[a], s)
	}
	for a := range closer {
		l := closer[a]
		for i := 0; i < len(l); i++ {
			for j := i + 1; j < len(l); j++ {
				if c11Depth(in, l[j]) > c11Depth(in, l[i]) {
					l[i], l[j] = l[j], l[i]
				}
			}
		}
		for _, s := range l {
			in.Actors[a] = append(in.Actors[a], c11Act{"close", s})
		}
	}
	return in
}

type c11Rec struct {
	kind  string // event | done | err-invoke | err-return | stop | close-invoke | close-return
	scope int
	ev    int  // event index for kind == event
	flag  bool // close-return: returned an error
	seq   int
}

type c11ListenerErr struct{ s string }

func (e *c11ListenerErr) Error() string { return e.s }

func c11Run(inI interface{}, env *Env) *Failure {
	in := inI.(*c11In)
	n := len(in.Scopes)
	var log []c11Rec
	seq := 0
	rec := func(r c11Rec) {
		seq++
		r.seq = seq
		log = append(log, r)
	}
	scopes := make([]app.Scope, n)
	closing := make([]bool, n)
	gates := make([]simrt.RWMutex, n)
	var post *Failure
	var finalErrs [][]error
	var finalDone []bool
	var doubleClose string
	var reentered []string
	manyCalls := map[[2]int]int{}
	res := env.Sim(SimOpts{MaxSteps: 60000, FairSteps: 30000}, func() {
		index := map[app.Scope]int{}
		for i, sc := range in.Scopes {
			if sc.Parent < 0 {
				scopes[i] = scope.New(scope.Params{Name: fmt.Sprintf("s%d", i)})
			} else {
				cp := scope.ChildParams{Name: fmt.Sprintf("s%d", i)}
				if sc.Isolated {
					cp.ContextScope = contextscope.NewIsolated(scopes[sc.Parent].BaseContextScope())
				}
				scopes[i] = scope.NewChild(scopes[sc.Parent], cp)
			}
			index[scopes[i]] = i
		}
		for i, sc := range in.Scopes {
			i, sc := i, sc
			for e := range c11Events {
				e := e
				scopes[i].On(c11Events[e], func(data interface{}) error {
					ds, ok := data.(app.Scope)
					if !ok || index[ds] != i {
						return nil // an event of a descendant travelling through the parent's listeners
					}
					rec(c11Rec{kind: "event", scope: i, ev: e})
					if sc.Reenter == e+1 {
						// closing twice is refused loudly - also when the second Close comes from
						// inside the first (a listener); a hang here ends the run as a deadlock
						func() {
							defer func() {
								if p := recover(); p != nil {
									if simrt.IsAbort(p) {
										panic(p)
									}
									reentered = append(reentered, fmt.Sprintf("s%d/%s: refused", i, c11EventNames[e]))
								}
							}()
							_ = scopes[i].Close()
							reentered = append(reentered, fmt.Sprintf("s%d/%s: ACCEPTED", i, c11EventNames[e]))
						}()
					}
					if sc.FailEvent == e+1 {
						rec(c11Rec{kind: "err-invoke", scope: i})
						return &c11ListenerErr{fmt.Sprintf("listener of s%d fails on %s", i, c11EventNames[e])}
					}
					return nil
				})
			}
			for k := 0; k < sc.Many; k++ {
				k := k
				scopes[i].On(c11Events[sc.ManyEv-1], func(data interface{}) error {
					if ds, ok := data.(app.Scope); ok && index[ds] == i {
						manyCalls[[2]int{i, k}]++
					}
					return nil
				})
			}
			if sc.Tasks > 0 {
				if err := scopes[i].AddTasks(sc.Tasks); err != nil {
					panic(harnessTrouble{"AddTasks on a fresh scope: " + err.Error()})
				}
			}
		}
		var wg simrt.WaitGroup
		wg.Add(len(in.Actors))
		for ai, acts := range in.Actors {
			ai, acts := ai, acts
			simrt.GoNamed(fmt.Sprintf("actor%d", ai), func() {
				defer wg.Done()
				for _, a := range acts {
					s := scopes[a.Scope]
					switch a.Op {
					case "yield":
						simrt.Yield()
					case "done":
						// recorded at the invocation: the closer may go on as soon as the counter
						// drops, which can be before DoneTask has returned to its caller (an
						// implementation is free to have scheduling points after the drop)
						rec(c11Rec{kind: "done", scope: a.Scope})
						s.DoneTask()
					case "err", "kill", "stop":
						// the documented contract: no mutating call on a scope object once its
						// Close was invoked. A real program orders the two; here a gate does
						// (calls in flight finish before the closer proceeds).
						gates[a.Scope].RLock()
						if closing[a.Scope] {
							gates[a.Scope].RUnlock()
							env.Count("probe.mutation-skipped-because-close-was-invoked")
							continue
						}
						if a.Op != "stop" {
							rec(c11Rec{kind: "err-invoke", scope: a.Scope})
						}
						switch a.Op {
						case "err":
							s.AppendError(errors.New("actor error"))
						case "kill":
							s.Kill()
						case "stop":
							s.Stop()
						}
						if a.Op != "stop" {
							rec(c11Rec{kind: "err-return", scope: a.Scope})
						} else {
							rec(c11Rec{kind: "stop", scope: a.Scope})
						}
						gates[a.Scope].RUnlock()
					case "close":
						gates[a.Scope].Lock()
						closing[a.Scope] = true
						gates[a.Scope].Unlock()
						rec(c11Rec{kind: "close-invoke", scope: a.Scope})
						err := s.Close()
						rec(c11Rec{kind: "close-return", scope: a.Scope, flag: err != nil})
					}
				}
			})
		}
		wg.Wait()
		simrt.WaitQuiescent()
		for i := range scopes {
			finalErrs = append(finalErrs, scopes[i].Errors())
			finalDone = append(finalDone, scopes[i].IsDone())
		}
		// closing twice is refused loudly and repeats nothing
		before := len(log)
		func() {
			defer func() {
				if p := recover(); p != nil {
					if simrt.IsAbort(p) {
						panic(p)
					}
					doubleClose = "refused"
				}
			}()
			_ = scopes[n-1].Close()
			doubleClose = "accepted"
		}()
		if len(log) != before {
			doubleClose = "events-repeated"
		}
	})
	if res.Decisions > 0 {
		env.Count("nontrivial")
	}
	if f := env.SimFailure("C11", res); f != nil {
		return f
	}
	if len(res.Races) > 0 {
		rc := res.Races[0]
		return failf("C11/map-race", fmt.Sprintf("%s|%s", siteName(rc.Site1), siteName(rc.Site2)), "unsynchronised %s access to %s: %s vs %s", rc.Kind, rc.MapLabel, siteName(rc.Site1), siteName(rc.Site2))
	}
	if post != nil {
		return post
	}
	// every listener of an event runs when the event fires (once), however many there are
	for i, sc := range in.Scopes {
		if sc.Many == 0 || sc.FailEvent == sc.ManyEv {
			continue // a listener that returns an error ends the round for the listeners after it (by design)
		}
		fired := 0
		for _, rc := range log {
			if rc.kind == "event" && rc.scope == i && rc.ev == sc.ManyEv-1 {
				fired++
			}
		}
		for k := 0; k < sc.Many; k++ {
			if manyCalls[[2]int{i, k}] != fired {
				return failf("C11/listener-skipped", fmt.Sprintf("listeners=%d", sc.Many+1), "s%d has %d listeners on %s; the event fired %d time(s) for the first one but listener %d ran %d time(s)", i, sc.Many+1, c11EventNames[sc.ManyEv-1], fired, k+2, manyCalls[[2]int{i, k}])
			}
		}
	}
	for _, r := range reentered {
		if strings.HasSuffix(r, "ACCEPTED") {
			return failf("C11/double-close", "re-entrant", "a Close issued from inside the running Close of the same scope (listener) returned instead of being refused loudly: %v", reentered)
		}
	}
	if len(reentered) > 0 {
		env.CountN("probe.close-from-inside-a-close-listener-refused", len(reentered))
	}
	if doubleClose != "refused" {
		return failf("C11/double-close", doubleClose, "a second Close of a closed scope was %s instead of being refused loudly", doubleClose)
	}
	// context groups: a child shares its parent's context unless isolated
	group := make([]int, n)
	for i, sc := range in.Scopes {
		if sc.Parent < 0 || sc.Isolated {
			group[i] = i
		} else {
			group[i] = group[sc.Parent]
		}
	}
	ancestorGroups := func(s int) map[int]bool {
		out := map[int]bool{}
		for x := s; x >= 0; x = in.Scopes[x].Parent {
			out[group[x]] = true
		}
		return out
	}
	for s := 0; s < n; s++ {
		var evs []c11Rec
		closeInvoke, closeReturn := 0, 0
		closeErr := false
		for _, r := range log {
			if r.scope != s {
				continue
			}
			switch r.kind {
			case "event":
				evs = append(evs, r)
			case "close-invoke":
				closeInvoke = r.seq
			case "close-return":
				closeReturn, closeErr = r.seq, r.flag
			}
		}
		key := fmt.Sprintf("depth%d", c11Depth(in, s))
		if closeInvoke == 0 || closeReturn == 0 {
			return failf("C11/close-never-returned", key, "Close of s%d did not return", s)
		}
		// before-close, one triple, after-close; each once, in order
		names := []string{}
		for _, e := range evs {
			names = append(names, c11EventNames[e.ev])
		}
		commit := []string{"before-close", "before-commit", "commit", "after-commit", "after-close"}
		rollback := []string{"before-close", "before-rollback", "rollback", "after-rollback", "after-close"}
		same := func(a, b []string) bool {
			if len(a) != len(b) {
				return false
			}
			for i := range a {
				if a[i] != b[i] {
					return false
				}
			}
			return true
		}
		isCommit := same(names, commit)
		if !isCommit && !same(names, rollback) {
			return failf("C11/event-order", key, "scope s%d fired %v; expected before-close, exactly one of the commit / rollback triples, after-close", s, names)
		}
		if evs[0].seq < closeInvoke || evs[len(evs)-1].seq > closeReturn {
			return failf("C11/event-order", "outside-close", "scope s%d fired close events outside its Close call", s)
		}
		tripleStart := evs[1].seq
		// the triple starts after every DoneTask of the scope and after the after-close of every child
		lastDep := 0
		for _, r := range log {
			dep := (r.kind == "done" && r.scope == s) || (r.kind == "event" && r.ev == len(c11Events)-1 && r.scope != s && in.Scopes[r.scope].Parent == s)
			if dep {
				if r.seq > tripleStart {
					what := "DoneTask"
					if r.kind == "event" {
						what = fmt.Sprintf("the close of child s%d", r.scope)
					}
					return failf("C11/triple-before-wait-ended", what, "scope s%d started its %s triple (event %d) before %s (event %d)", s, names[1], tripleStart, what, r.seq)
				}
				if r.seq > lastDep {
					lastDep = r.seq
				}
			}
		}
		// commit xor rollback
		mustErr, mayErr := false, false
		anc := ancestorGroups(s)
		for _, r := range log {
			if r.kind == "err-return" && group[r.scope] == group[s] && r.seq < lastDep && r.seq < tripleStart {
				mustErr = true
			}
			if r.kind == "err-return" && group[r.scope] == group[s] && r.seq < evs[0].seq {
				mustErr = true // present before Close even began
			}
			if r.kind == "err-invoke" && anc[group[r.scope]] && r.seq < tripleStart {
				mayErr = true
			}
		}
		if mustErr && isCommit {
			return failf("C11/commit-despite-error", key, "scope s%d committed although an error had been appended to its context before its wait ended", s)
		}
		if !mayErr && !isCommit {
			return failf("C11/rollback-without-error", key, "scope s%d rolled back although no error was appended to its context (or an ancestor's) before the triple began", s)
		}
		// Close reports an error iff the scope holds one at the end
		must, may := false, false
		for _, r := range log {
			if r.kind == "err-return" && group[r.scope] == group[s] && r.seq < evs[len(evs)-1].seq {
				must = true
			}
			if r.kind == "err-invoke" && anc[group[r.scope]] && r.seq < closeReturn {
				may = true
			}
		}
		if must && !closeErr {
			return failf("C11/close-result", "error-not-reported", "Close of s%d returned nil although its context held an error before after-close", s)
		}
		if !may && closeErr {
			return failf("C11/close-result", "spurious-error", "Close of s%d returned an error although nothing failed in its context or an ancestor's", s)
		}
	}
	// shared child failure fails the parent; isolated child fails alone; parent's end stops isolated children
	for _, r := range log {
		if r.kind != "err-return" {
			continue
		}
		for s := 0; s < n; s++ {
			if group[s] == group[r.scope] {
				if len(finalErrs[s]) == 0 || !finalDone[s] {
					return failf("C11/shared-failure-not-propagated", "", "an error/kill on s%d is not visible on s%d which shares its context (errors %v, done %v)", r.scope, s, finalErrs[s], finalDone[s])
				}
			}
		}
	}
	for s := 0; s < n; s++ {
		failedHere := false
		for _, r := range log {
			if r.kind == "err-invoke" && ancestorGroups(s)[group[r.scope]] {
				failedHere = true
			}
		}
		if !failedHere && len(finalErrs[s]) != 0 {
			return failf("C11/isolation", "error-leaked-upwards", "s%d holds errors %v although nothing failed in its context or an ancestor's (only an isolated descendant failed)", s, finalErrs[s])
		}
		// parent stop/kill => isolated child done by quiescence
		if in.Scopes[s].Isolated {
			p := in.Scopes[s].Parent
			if finalDone[p] && !finalDone[s] {
				return failf("C11/isolated-child-not-stopped", "", "s%d (isolated child of s%d) is not done although its parent ended", s, p)
			}
		}
	}
	return nil
}

func c11Shrink(inI interface{}) []interface{} {
	in := inI.(*c11In)
	var out []interface{}
	cp := func() *c11In {
		c := &c11In{Scopes: append([]c11Scope(nil), in.Scopes...)}
		for _, a := range in.Actors {
			c.Actors = append(c.Actors, append([]c11Act(nil), a...))
		}
		return c
	}
	// drop a leaf scope (the last one is always a leaf or the root)
	if n := len(in.Scopes); n > 1 {
		last := n - 1
		isParent := false
		for _, sc := range in.Scopes {
			if sc.Parent == last {
				isParent = true
			}
		}
		if !isParent {
			c := cp()
			c.Scopes = c.Scopes[:last]
			for a := range c.Actors {
				var l []c11Act
				for _, act := range c.Actors[a] {
					if act.Scope != last || act.Op == "yield" {
						if act.Op == "yield" {
							act.Scope = 0
						}
						l = append(l, act)
					}
				}
				c.Actors[a] = l
			}
			out = append(out, c)
		}
	}
	for a := range in.Actors {
		for i, act := range in.Actors[a] {
			if act.Op == "yield" || act.Op == "err" || act.Op == "kill" || act.Op == "stop" {
				c := cp()
				c.Actors[a] = append(c.Actors[a][:i], c.Actors[a][i+1:]...)
				out = append(out, c)
			}
		}
	}
	for s, sc := range in.Scopes {
		if sc.FailEvent != 0 {
			c := cp()
			c.Scopes[s].FailEvent = 0
			out = append(out, c)
		}
		if sc.Reenter != 0 {
			c := cp()
			c.Scopes[s].Reenter = 0
			out = append(out, c)
		}
		if sc.Isolated {
			c := cp()
			c.Scopes[s].Isolated = false
			out = append(out, c)
		}
		if sc.Tasks > 0 {
			c := cp()
			c.Scopes[s].Tasks--
			removed := false
			for a := range c.Actors {
				for i, act := range c.Actors[a] {
					if !removed && act.Op == "done" && act.Scope == s {
						c.Actors[a] = append(c.Actors[a][:i], c.Actors[a][i+1:]...)
						removed = true
						break
					}
				}
			}
			out = append(out, c)
		}
	}
	return out
}

func init() {
	register(&Prop{
		ID:     "C11",
		Level:  "exploration",
		Gen:    c11Gen,
		New:    func() interface{} { return &c11In{} },
		Run:    c11Run,
		Shrink: c11Shrink,
		Rule: "one case = a scope tree of 1-6 scopes (depth <= 3, shared and isolated children, 0-2 tasks each, optionally a listener that returns an error on one close-protocol event) + 2-5 actor scripts (done-task, append-error, kill, stop, exactly one Close per scope, yields) x one seeded schedule; recording listeners on all eight close-protocol events of every scope; oracle over the event log; " +
			"non-trivial = a scheduling decision with more than one runnable task; distinct = distinct (input, decision sequence)",
		Real:        []string{"app/scope (Scope.Close, close, Wait, AddTasks, DoneTask, Kill, Stop, AppendError, NewChild)", "app/scope/eventscope (EventScope, ChildEventScope)", "app/scope/contextscope (ContextScope, Isolated + watcher goroutine)"},
		Stub:        []string{"sync primitives, scheduler, clock (simrt)", "listeners and actors (probes)"},
		Assumptions: []string{
			"commit is required only when no error was appended (invoked) to the scope's context or an ancestor's before the triple began, rollback only when an error append had returned before the scope's last task/child finished; anything racing in between is accepted either way",
			"inside one actor closes are ordered deepest first, so the generated program itself cannot deadlock",
		},
	})
}
