package simcheck

import (
	"bytes"
	"fmt"
	htmpl "html/template"
	"sort"
	"strings"
	ttmpl "text/template"

	"github.com/goatcms/goatcore/filesystem"
	"github.com/goatcms/goatcore/filesystem/filespace/memfs"
	"github.com/goatcms/goatcore/goathtml"
	"github.com/goatcms/goatcore/goathtml/ghprovider"
	"github.com/goatcms/goatcore/goattext"
	"github.com/goatcms/goatcore/goattext/gtprovider"
	"simrt"
)

// C19 — template providers: layered definitions, isolated views, cache-transparent.
//
// Generated template sets in a memfs (helpers, 1-2 layouts, 1-3 views; define blocks whose
// names overlap across layers and views, never twice within one layer), request sequences
// Base / Layout / View in any order with repetition, caching on and off, HTML and text
// provider. Sequential shape: every visible name renders to the text of its most specific
// layer, names of other views / of a view when asking the layout are absent, asking twice and
// cached vs uncached agree. Concurrent shape: 2-5 tasks issue their first requests at once on
// one cached provider: all get equivalent templates, no panic, no unsynchronised map access.

type c19Layer map[string]string // define name -> body text, split over 1-2 files by the harness

type c19Req struct {
	Kind   string `json:"kind"` // Base Layout View
	Layout string `json:"layout,omitempty"`
	View   string `json:"view,omitempty"`
}

type c19In struct {
	HTML       bool                `json:"html"`
	Helpers    c19Layer            `json:"helpers"`
	Layouts    map[string]c19Layer `json:"layouts"`
	Views      map[string]c19Layer `json:"views"`
	Reqs       []c19Req            `json:"reqs"`
	Concurrent int                 `json:"concurrent"` // 0: sequential shape; n: n tasks, each runs Reqs rotated by its index
	dupSeen    string
	Dup        string              `json:"dup,omitempty"` // a helper name that a second helper file defines again (another text): which wins is the listing's business, but it is the same one every time
	Ext        string              `json:"ext,omitempty"` // file extension the provider is configured with ("" = the package default)
}

var c19Names = []string{"A", "B", "C", "D", "E"}

func c19GenLayer(r *Rand, tag string, p, q int) c19Layer {
	l := c19Layer{}
	for _, n := range c19Names {
		if r.Chance(p, q) {
			l[n] = tag + "-" + n
		}
	}
	return l
}

func c19Gen(r *Rand, tier string) interface{} {
	in := &c19In{HTML: r.Bool(), Helpers: c19GenLayer(r, "helper", 1, 2), Layouts: map[string]c19Layer{}, Views: map[string]c19Layer{}}
	layouts := []string{"default", "alt"}[:1+r.Intn(2)]
	for _, l := range layouts {
		in.Layouts[l] = c19GenLayer(r, "layout_"+l, 1, 2)
	}
	views := []string{"home", "homepage", "item"}[:1+r.Intn(3)] // "homepage" extends "home"
	for _, v := range views {
		in.Views[v] = c19GenLayer(r, "view_"+v, 1, 2)
	}
	lpool := append(append([]string{}, layouts...), "", "missing")
	vpool := append(append([]string{}, views...), "nosuchview")
	for k, n := 0, 1+r.Intn(8); k < n; k++ {
		switch r.Intn(4) {
		case 0:
			in.Reqs = append(in.Reqs, c19Req{Kind: "Base"})
		case 1:
			in.Reqs = append(in.Reqs, c19Req{Kind: "Layout", Layout: lpool[r.Intn(len(lpool))]})
		default:
			in.Reqs = append(in.Reqs, c19Req{Kind: "View", Layout: lpool[r.Intn(len(lpool))], View: vpool[r.Intn(len(vpool))]})
		}
	}
	if r.Chance(1, 2) {
		in.Concurrent = 2 + r.Intn(4)
	}
	if r.Chance(1, 5) {
		in.Ext = []string{".tpl.html", ".t", ".tmpl.txt"}[r.Intn(3)] // the extension is a constructor argument
	}
	if len(in.Helpers) > 0 && in.Concurrent == 0 && r.Chance(1, 4) {
		names := []string{}
		for n := range in.Helpers {
			names = append(names, n)
		}
		sort.Strings(names)
		in.Dup = names[r.Intn(len(names))]
	}
	return in
}

// tmplSet abstracts over *html/template.Template and *text/template.Template.
type tmplSet interface {
	lookup(name string) bool
	render(name string) (string, error)
}

type hSet struct {
	t      *htmpl.Template
	direct bool // a View result is the end product: executed as handed out, like a caller does
}
type tSet struct{ t *ttmpl.Template }

func (s hSet) lookup(n string) bool { return s.t != nil && s.t.Lookup(n) != nil }
func (s tSet) lookup(n string) bool { return s.t != nil && s.t.Lookup(n) != nil }
func (s hSet) render(n string) (string, error) {
	c := s.t
	if !s.direct {
		// Base and Layout results are the provider's own cached layers, which it clones to
		// build the next layer: observe them without marking them as executed
		if cl, err := s.t.Clone(); err == nil {
			c = cl
		}
	}
	var b bytes.Buffer
	err := c.ExecuteTemplate(&b, n, nil)
	return b.String(), err
}
func (s tSet) render(n string) (string, error) {
	var b bytes.Buffer
	err := s.t.ExecuteTemplate(&b, n, nil)
	return b.String(), err
}

type c19Provider interface {
	get(rq c19Req) (tmplSet, error)
}

type hProv struct{ p *ghprovider.Provider }
type tProv struct{ p *gtprovider.Provider }

func (p hProv) get(rq c19Req) (tmplSet, error) {
	var t *htmpl.Template
	var err error
	switch rq.Kind {
	case "Base":
		t, err = p.p.Base()
	case "Layout":
		t, err = p.p.Layout(rq.Layout)
	default:
		t, err = p.p.View(rq.Layout, rq.View)
	}
	return hSet{t, rq.Kind == "View"}, err
}

func (p tProv) get(rq c19Req) (tmplSet, error) {
	var t *ttmpl.Template
	var err error
	switch rq.Kind {
	case "Base":
		t, err = p.p.Base()
	case "Layout":
		t, err = p.p.Layout(rq.Layout)
	default:
		t, err = p.p.View(rq.Layout, rq.View)
	}
	return tSet{t}, err
}

func (in *c19In) ext() string {
	if in.Ext != "" {
		return in.Ext
	}
	if in.HTML {
		return goathtml.FileExtension
	}
	return goattext.FileExtension
}

func (in *c19In) populate(fs filesystem.Filespace) {
	write := func(dir string, l c19Layer) {
		names := []string{}
		for n := range l {
			names = append(names, n)
		}
		sort.Strings(names)
		// two files per layer when it has more than one definition
		files := map[string]string{}
		for i, n := range names {
			f := fmt.Sprintf("%spart%d%s", dir, i%2, in.ext())
			switch i {
			case 2:
				f = dir + ".dotfile" + in.ext() // any name with the extension is a template file
			case 3:
				f = dir + ".dotdir/nested/x" + in.ext()
			}
			files[f] += fmt.Sprintf(`{{define "%s"}}%s{{end}}`, n, l[n])
		}
		if len(names) == 0 {
			files[dir+"part0"+in.ext()] = `{{define "unused"}}x{{end}}`
		}
		files[dir+"ignored.txt"] = `{{define "A"}}from a file with another extension{{end}}`
		for _, f := range sortedNamesS(files) {
			if err := fs.WriteFile(f, []byte(files[f]), filesystem.DefaultUnixFileMode); err != nil {
				panic(harnessTrouble{"C19 populate: " + err.Error()})
			}
		}
	}
	write("helpers/", in.Helpers)
	if in.Dup != "" {
		for _, f := range []string{"helpers/adup", "helpers/zdup"} {
			if err := fs.WriteFile(f+in.ext(), []byte(fmt.Sprintf(`{{define "%s"}}helper-dup-%s{{end}}`, in.Dup, in.Dup)), filesystem.DefaultUnixFileMode); err != nil {
				panic(harnessTrouble{"C19 populate: " + err.Error()})
			}
		}
	}
	if first := in.callTarget(); first != "" {
		// a helper that *calls* another definition by name: the call must reach the most
		// specific definition visible in the requesting view, not the helper layer's own
		f := "helpers/zcall" + in.ext()
		if err := fs.WriteFile(f, []byte(fmt.Sprintf(`{{define "CALL"}}[{{template "%s"}}]{{end}}`, first)), filesystem.DefaultUnixFileMode); err != nil {
			panic(harnessTrouble{"C19 populate: " + err.Error()})
		}
	}
	for _, l := range sortedNamesL(in.Layouts) {
		write("layouts/"+l+"/", in.Layouts[l])
	}
	for _, v := range sortedNamesL(in.Views) {
		write("views/"+v+"/sub/", in.Views[v])
	}
}

// callTarget is the helper definition that the CALL helper invokes ("" without helpers).
func (in *c19In) callTarget() string {
	names := []string{}
	for n := range in.Helpers {
		names = append(names, n)
	}
	if len(names) == 0 {
		return ""
	}
	sort.Strings(names)
	return names[0]
}

func sortedNamesL(m map[string]c19Layer) []string {
	out := []string{}
	for k := range m {
		out = append(out, k)
	}
	sort.Strings(out)
	return out
}

func (in *c19In) provider(fs filesystem.Filespace, cached bool) c19Provider {
	if in.HTML {
		return hProv{ghprovider.NewProvider(fs, goathtml.HelpersPath, goathtml.LayoutPath, goathtml.ViewPath, in.ext(), nil, cached)}
	}
	return tProv{gtprovider.NewProvider(fs, goattext.HelpersPath, goattext.LayoutPath, goattext.ViewPath, in.ext(), nil, cached)}
}

// expected visible definitions of a request: the more specific layer overrides
func (in *c19In) expected(rq c19Req) map[string]string {
	out := map[string]string{}
	for k, v := range in.Helpers {
		out[k] = v
	}
	if rq.Kind == "Base" {
		return out
	}
	l := rq.Layout
	if l == "" {
		l = "default"
	}
	for k, v := range in.Layouts[l] {
		out[k] = v
	}
	if rq.Kind == "Layout" {
		return out
	}
	for k, v := range in.Views[rq.View] {
		out[k] = v
	}
	return out
}

func c19Check(in *c19In, rq c19Req, s tmplSet, who string) *Failure {
	exp := in.expected(rq)
	for _, n := range c19Names {
		want, visible := exp[n]
		if !visible {
			if s.lookup(n) {
				out, _ := s.render(n)
				return failf("C19/foreign-definition-visible", rq.Kind, "%s %+v: definition %q is visible (renders %q) although no layer of this request defines it", who, rq, n, out)
			}
			continue
		}
		if !s.lookup(n) {
			return failf("C19/definition-missing", rq.Kind, "%s %+v: definition %q (%q) is not in the returned template", who, rq, n, want)
		}
		got, err := s.render(n)
		if err != nil {
			return failf("C19/render-error", rq.Kind, "%s %+v: rendering %q failed: %v", who, rq, n, err)
		}
		if n == in.Dup && want == in.Helpers[n] && (got == want || got == "helper-dup-"+n) {
			// two helper files define it: either may win (listing order), but always the same one
			if in.dupSeen == "" {
				in.dupSeen = got
			}
			if got != in.dupSeen {
				return failf("C19/not-equivalent", rq.Kind, "%s %+v: %q, defined by two helper files, renders %q now and rendered %q in an earlier request of this run: asking twice does not give equivalent templates", who, rq, n, got, in.dupSeen)
			}
			continue
		}
		if got != want {
			return failf("C19/wrong-layer-wins", rq.Kind, "%s %+v: %q renders %q, expected %q (more specific layer overrides)", who, rq, n, got, want)
		}
	}
	if first := in.callTarget(); first != "" {
		if !s.lookup("CALL") {
			return failf("C19/definition-missing", rq.Kind, "%s %+v: helper definition \"CALL\" is not in the returned template", who, rq)
		}
		got, err := s.render("CALL")
		if err != nil {
			return failf("C19/render-error", rq.Kind, "%s %+v: rendering \"CALL\" failed: %v", who, rq, err)
		}
		if first == in.Dup && exp[first] == in.Helpers[first] {
			// the called definition is the doubly defined one: either text
			if got != "["+exp[first]+"]" && got != "[helper-dup-"+first+"]" {
				return failf("C19/wrong-layer-wins", rq.Kind+"/call", "%s %+v: the helper that calls %q renders %q", who, rq, first, got)
			}
		} else if want := "[" + exp[first] + "]"; got != want {
			return failf("C19/wrong-layer-wins", rq.Kind+"/call", "%s %+v: the helper that calls %q renders %q, expected %q (a call reaches the most specific definition of this request)", who, rq, first, got, want)
		}
	}
	return nil
}

func c19Run(inI interface{}, env *Env) *Failure {
	in := inI.(*c19In)
	in.dupSeen = ""
	var post *Failure
	kind := "text"
	if in.HTML {
		kind = "html"
	}
	res := env.Sim(SimOpts{MaxSteps: 300000, FairSteps: 100000}, func() {
		fs, err := memfs.NewFilespace()
		if err != nil {
			panic(harnessTrouble{err.Error()})
		}
		in.populate(fs)
		if in.Concurrent == 0 {
			cached, uncached := in.provider(fs, true), in.provider(fs, false)
			for i, rq := range in.Reqs {
				for _, pv := range []struct {
					name string
					p    c19Provider
				}{{"cached " + kind, cached}, {"uncached " + kind, uncached}} {
					s, err := pv.p.get(rq)
					if rq.Kind == "View" && rq.View == "" {
						continue
					}
					if err != nil {
						post = failf("C19/request-failed", rq.Kind+"/"+strings.Fields(pv.name)[0], "request %d %+v on the %s provider failed: %v", i, rq, pv.name, err)
						return
					}
					if post = c19Check(in, rq, s, fmt.Sprintf("request %d on the %s provider", i, pv.name)); post != nil {
						return
					}
				}
			}
			return
		}
		// concurrent first use of one cached provider
		p := in.provider(fs, true)
		var wg simrt.WaitGroup
		wg.Add(in.Concurrent)
		for t := 0; t < in.Concurrent; t++ {
			t := t
			simrt.GoNamed(fmt.Sprintf("user%d", t), func() {
				defer wg.Done()
				for k := range in.Reqs {
					rq := in.Reqs[(k+t)%len(in.Reqs)]
					s, err := p.get(rq)
					if err != nil {
						if post == nil {
							post = failf("C19/request-failed", rq.Kind+"/concurrent", "task %d: %+v failed: %v", t, rq, err)
						}
						return
					}
					if f := c19Check(in, rq, s, fmt.Sprintf("task %d (concurrent first use)", t)); f != nil && post == nil {
						post = f
						return
					}
				}
			})
		}
		wg.Wait()
	})
	if in.Concurrent == 0 || res.Decisions > 0 {
		env.Count("nontrivial")
	}
	if f := env.SimFailure("C19", res); f != nil {
		return f
	}
	if len(res.Races) > 0 {
		rc := res.Races[0]
		return failf("C19/map-race", fmt.Sprintf("%s|%s", siteName(rc.Site1), siteName(rc.Site2)), "unsynchronised %s access to %s: %s (task %d) vs %s (task %d): 'fatal error: concurrent map read and map write' under parallel execution", rc.Kind, rc.MapLabel, siteName(rc.Site1), rc.Task1, siteName(rc.Site2), rc.Task2)
	}
	return post
}

func c19Shrink(inI interface{}) []interface{} {
	in := inI.(*c19In)
	var out []interface{}
	cp := func() *c19In {
		c := &c19In{HTML: in.HTML, Concurrent: in.Concurrent, Ext: in.Ext, Dup: in.Dup, Helpers: c19Layer{}, Layouts: map[string]c19Layer{}, Views: map[string]c19Layer{}, Reqs: append([]c19Req(nil), in.Reqs...)}
		for k, v := range in.Helpers {
			c.Helpers[k] = v
		}
		for l, m := range in.Layouts {
			c.Layouts[l] = c19Layer{}
			for k, v := range m {
				c.Layouts[l][k] = v
			}
		}
		for l, m := range in.Views {
			c.Views[l] = c19Layer{}
			for k, v := range m {
				c.Views[l][k] = v
			}
		}
		return c
	}
	for i := range in.Reqs {
		if len(in.Reqs) > 1 {
			c := cp()
			c.Reqs = append(c.Reqs[:i], c.Reqs[i+1:]...)
			out = append(out, c)
		}
	}
	if in.Concurrent > 2 {
		c := cp()
		c.Concurrent--
		out = append(out, c)
	}
	for _, n := range c19Names {
		if _, ok := in.Helpers[n]; ok {
			c := cp()
			delete(c.Helpers, n)
			out = append(out, c)
		}
		for _, l := range sortedNamesL(in.Layouts) {
			if _, ok := in.Layouts[l][n]; ok {
				c := cp()
				delete(c.Layouts[l], n)
				out = append(out, c)
			}
		}
		for _, v := range sortedNamesL(in.Views) {
			if _, ok := in.Views[v][n]; ok {
				c := cp()
				delete(c.Views[v], n)
				out = append(out, c)
			}
		}
	}
	return out
}

func init() {
	register(&Prop{
		ID:     "C19",
		Level:  "exploration",
		Gen:    c19Gen,
		New:    func() interface{} { return &c19In{} },
		Run:    c19Run,
		Shrink: c19Shrink,
		Rule: "one case = a template set (helpers, 1-2 layouts, 1-3 views, define names A-E overlapping across layers and views, two to four files per layer (also dot-named files and directories), a decoy with another extension) + 1-8 requests Base / Layout / View (also the default layout, missing layouts and views) for the HTML or the text provider; sequential shape: the same sequence against a cached and an uncached provider, every name rendered and compared with the layering rule; concurrent shape: 2-5 tasks run rotations of the sequence on one cached provider under the seeded scheduler with the happens-before probe on the cache maps; " +
			"non-trivial = sequential case, or a concurrent case with a real scheduling decision; distinct = distinct (input, decision sequence)",
		Real:        []string{"goathtml/ghprovider (Provider, TemplateLoader)", "goattext/gtprovider", "filesystem/fsloop.WalkFS", "memfs", "std html/template and text/template"},
		Stub:        []string{"sync.Mutex -> simrt", "scheduler, clock"},
		Assumptions: []string{"View results are executed as handed out; templates returned for Base and Layout are rendered through a Clone (html/template refuses to Clone a template after it was executed, and the provider clones its cached layers to build the next one)", "define bodies are plain text: no oracle depends on escaping"},
	})
}
