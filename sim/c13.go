package simcheck

import (
	"fmt"
	"reflect"
	"time"

	"github.com/anishathalye/porcupine"
	"github.com/goatcms/goatcore/app"
	"github.com/goatcms/goatcore/app/modules/commonm/commservices/envs"
	"github.com/goatcms/goatcore/app/modules/commonm/commservices/waits"
	"github.com/goatcms/goatcore/app/modules/pipelinem/pipservices/tasks"
	"github.com/goatcms/goatcore/app/scope"
	"github.com/goatcms/goatcore/app/scope/datascope"
	"simrt"
)

// C13 — data scope: child overlays parent, locked sections are atomic.
//
// Shape 0: sequential key/value history on a parent-child chain (depth <= 4) against a
//          map-with-fall-through model, including locked sections used sequentially.
// Shape 1: 2-5 tasks on ONE data scope object: locked read-modify-write sections and plain
//          SetValue/Value; the recorded history (a section is one operation) must be
//          linearizable w.r.t. a sequential map (porcupine).
// Shape 2: N tasks call the three get-or-create services on one scope: one instance each.

type c13Step struct {
	Kind string `json:"kind"` // r = read, w = write, i = increment (read then write read+1), y = yield
	Key  int    `json:"key"`
	Val  int    `json:"val"`
}

type c13Op struct {
	Level  int       `json:"level"` // shape 0: which scope of the chain
	Locked bool      `json:"locked"`
	Steps  []c13Step `json:"steps"`
}

type c13In struct {
	Shape  int       `json:"shape"`
	Depth  int       `json:"depth"`  // shape 0: chain length; shape 1: 1 = root scope, 2 = child scope object
	Tasks  [][]c13Op `json:"tasks"`  // shape 0: one task
	Callers int      `json:"callers"` // shape 2
	OnChild bool     `json:"on_child"`
	Chain   *c13Chain `json:"chain,omitempty"` // shape 3
	KeyKind int       `json:"key_kind,omitempty"` // 0 named int, 1 pointer, 2 struct, 3 string
}

const c13Keys = 2

func c13Gen(r *Rand, tier string) interface{} {
	in := &c13In{KeyKind: r.Pick(0, 0, 1, 2, 3)}
	val := 100
	next := func() int { val++; return val }
	switch r.Intn(6) {
	case 5:
		in.Shape = 3
		in.Chain = c13ChainGen(r, tier, next)
	case 0:
		in.Shape = 0
		in.Depth = 1 + r.Intn(4)
		var ops []c13Op
		for i, n := 0, 3+r.Intn(12); i < n; i++ {
			op := c13Op{Level: r.Intn(in.Depth), Locked: r.Chance(1, 4)}
			for j, k := 0, 1+r.Intn(3); j < k; j++ {
				st := c13Step{Kind: []string{"r", "w"}[r.Intn(2)], Key: r.Intn(3)}
				if st.Kind == "w" {
					st.Val = next()
					if r.Chance(1, 6) {
						st.Kind = "n" // the value nil: the scope then has the key, with no value (it hides the parent's)
					} else if r.Chance(1, 4) {
						st.Val = -1 - r.Intn(2) // one of two strings: equal values at several levels are ordinary
					}
				}
				op.Steps = append(op.Steps, st)
				if !op.Locked {
					break
				}
			}
			ops = append(ops, op)
		}
		in.Tasks = [][]c13Op{ops}
	case 1:
		in.Shape = 2
		in.Callers = 2 + r.Intn(4)
		in.OnChild = r.Bool()
	default:
		in.Shape = 1
		in.Depth = 1 + r.Intn(4) // 1 root scope, 2 child scope, 3 / 4: the locker of a section on the root / child, shared by the clients (nested sections)
		nt := 2 + r.Intn(3)
		if tier == "thorough" {
			nt = 2 + r.Intn(4)
		}
		total := 0
		for t := 0; t < nt; t++ {
			var ops []c13Op
			for i, n := 0, 1+r.Intn(3); i < n && total < 14; i++ {
				total++
				if r.Chance(3, 5) {
					op := c13Op{Locked: true}
					for j, k := 0, 1+r.Intn(3); j < k; j++ {
						st := c13Step{Kind: []string{"r", "w", "i", "i", "y"}[r.Intn(5)], Key: r.Intn(c13Keys)}
						if st.Kind == "w" {
							st.Val = next()
						}
						op.Steps = append(op.Steps, st)
					}
					ops = append(ops, op)
				} else {
					st := c13Step{Kind: []string{"r", "w"}[r.Intn(2)], Key: r.Intn(c13Keys)}
					if st.Kind == "w" {
						st.Val = next()
					}
					ops = append(ops, c13Op{Steps: []c13Step{st}})
				}
			}
			in.Tasks = append(in.Tasks, ops)
		}
	}
	return in
}

type c13Key int

// key kinds: a data scope key is any comparable value; the harness varies its type per run
type c13StructKey struct {
	A int
	B string
}

var c13PtrKeys = [8]*int{new(int), new(int), new(int), new(int), new(int), new(int), new(int), new(int)}
var c13KeyKind int // set at the start of every run from the input

func init() {
	for i, p := range c13PtrKeys {
		simrt.PtrRank[reflect.ValueOf(p).Pointer()] = i
	}
}

func c13K(k int) interface{} {
	switch c13KeyKind {
	case 1:
		return c13PtrKeys[k%len(c13PtrKeys)] // a pointer
	case 2:
		return c13StructKey{k, "k"}
	case 3:
		return fmt.Sprintf("key%d", k)
	}
	return c13Key(k)
}

// history element for porcupine
type c13HistIn struct {
	Steps []c13Step
}
type c13HistOut struct {
	Reads []int
}

var c13Model = porcupine.Model{
	Init: func() interface{} { return [c13Keys]int{} },
	Step: func(state, input, output interface{}) (bool, interface{}) {
		st := state.([c13Keys]int)
		in := input.(c13HistIn)
		out := output.(c13HistOut)
		ri := 0
		for _, s := range in.Steps {
			switch s.Kind {
			case "r":
				if ri >= len(out.Reads) || out.Reads[ri] != st[s.Key] {
					return false, st
				}
				ri++
			case "w":
				st[s.Key] = s.Val
			case "i":
				if ri >= len(out.Reads) || out.Reads[ri] != st[s.Key] {
					return false, st
				}
				ri++
				st[s.Key] = st[s.Key] + 1000
			}
		}
		return true, st
	},
	Equal: func(a, b interface{}) bool { return a.([c13Keys]int) == b.([c13Keys]int) },
	DescribeOperation: func(input, output interface{}) string {
		return fmt.Sprintf("%v -> %v", input.(c13HistIn).Steps, output.(c13HistOut).Reads)
	},
}

func c13Val(v interface{}) int {
	switch x := v.(type) {
	case nil:
		return 0
	case string:
		if x == "same-a" {
			return -1
		}
		return -2
	}
	return v.(int)
}

// c13Obj is the value stored for a model value: negative ones are (non-unique) strings.
func c13Obj(val int) interface{} {
	switch val {
	case -1:
		return "same-a"
	case -2:
		return "same-b"
	}
	return val
}

// c13Exec runs the steps of one operation against ds (a DataScope or a locker).
func c13Exec(ds app.DataScope, steps []c13Step) (reads []int) {
	for _, s := range steps {
		switch s.Kind {
		case "r":
			reads = append(reads, c13Val(ds.Value(c13K(s.Key))))
		case "w":
			ds.SetValue(c13K(s.Key), s.Val)
		case "i":
			v := c13Val(ds.Value(c13K(s.Key)))
			reads = append(reads, v)
			simrt.Yield()
			ds.SetValue(c13K(s.Key), v+1000)
		case "y":
			simrt.Yield()
		}
	}
	return
}

func c13Run(inI interface{}, env *Env) *Failure {
	in := inI.(*c13In)
	c13KeyKind = in.KeyKind
	switch in.Shape {
	case 0:
		return c13Sequential(in, env)
	case 2:
		return c13GetOrCreate(in, env)
	case 3:
		return c13ChainRun(in.Chain, env)
	}
	var history []porcupine.Operation
	seq := int64(0)
	res := env.Sim(SimOpts{MaxSteps: 30000, FairSteps: 30000}, func() {
		var ds app.DataScope = datascope.New(map[interface{}]interface{}{})
		if in.Depth == 2 || in.Depth == 4 {
			ds = datascope.NewChild(ds, map[interface{}]interface{}{})
		}
		for k := 0; k < c13Keys; k++ {
			ds.SetValue(c13K(k), 0) // every key lives in the object under test: no fall-through
		}
		var outer app.DataScopeLocker
		if in.Depth >= 3 {
			// the holder of a locked section hands its locker to several workers: their
			// nested sections (locker.LockData) and plain accesses must be atomic among themselves
			outer = ds.LockData()
			ds = outer
		}
		var wg simrt.WaitGroup
		wg.Add(len(in.Tasks))
		for ti, ops := range in.Tasks {
			ti, ops := ti, ops
			simrt.GoNamed(fmt.Sprintf("client%d", ti), func() {
				defer wg.Done()
				for _, op := range ops {
					seq++
					call := seq
					var reads []int
					if op.Locked {
						l := ds.LockData()
						reads = c13Exec(l, op.Steps)
						_ = l.Commit()
					} else {
						reads = c13Exec(ds, op.Steps)
					}
					seq++
					history = append(history, porcupine.Operation{ClientId: ti, Input: c13HistIn{op.Steps}, Call: call, Output: c13HistOut{reads}, Return: seq})
				}
			})
		}
		wg.Wait()
		if outer != nil {
			_ = outer.Commit()
		}
	})
	if res.Decisions > 0 {
		env.Count("nontrivial")
	}
	if in.Depth >= 3 {
		env.Count("probe.nested-sections-on-a-shared-locker")
	}
	if f := env.SimFailure("C13", res); f != nil {
		return f
	}
	if len(res.Races) > 0 {
		rc := res.Races[0]
		return failf("C13/map-race", fmt.Sprintf("%s|%s", siteName(rc.Site1), siteName(rc.Site2)), "unsynchronised %s access to %s: %s (task %d) vs %s (task %d): fatal 'concurrent map' error under parallel execution",
			rc.Kind, rc.MapLabel, siteName(rc.Site1), rc.Task1, siteName(rc.Site2), rc.Task2)
	}
	env.CountN("history.operations", len(history))
	switch porcupine.CheckOperationsTimeout(c13Model, history, 20*time.Second) {
	case porcupine.Illegal:
		return failf("C13/not-linearizable", "", "history of locked sections and plain accesses is not linearizable: %s", c13Describe(history))
	case porcupine.Unknown:
		env.Count("probe.linearizability-check-timed-out")
	default:
		env.Count("probe.linearizable-histories")
	}
	return nil
}

func c13Describe(h []porcupine.Operation) string {
	s := ""
	for _, o := range h {
		s += fmt.Sprintf("[c%d %d..%d %s] ", o.ClientId, o.Call, o.Return, c13Model.DescribeOperation(o.Input, o.Output))
	}
	return s
}

func c13Sequential(in *c13In, env *Env) *Failure {
	env.Count("nontrivial")
	chain := []app.DataScope{datascope.New(map[interface{}]interface{}{})}
	for i := 1; i < in.Depth; i++ {
		chain = append(chain, datascope.NewChild(chain[i-1], map[interface{}]interface{}{}))
	}
	model := make([]map[int]int, in.Depth)
	for i := range model {
		model[i] = map[int]int{}
	}
	lookup := func(level, key int) int {
		for l := level; l >= 0; l-- {
			if v, ok := model[l][key]; ok {
				return v
			}
		}
		return 0
	}
	for oi, op := range in.Tasks[0] {
		var ds app.DataScope = chain[op.Level]
		var locker app.DataScopeLocker
		if op.Locked {
			locker = chain[op.Level].LockData()
			ds = locker
		}
		for _, s := range op.Steps {
			switch s.Kind {
			case "w":
				ds.SetValue(c13K(s.Key), c13Obj(s.Val))
				model[op.Level][s.Key] = s.Val
			case "n":
				ds.SetValue(c13K(s.Key), nil)
				model[op.Level][s.Key] = 0 // has the key; c13Val reads nil as 0
			case "r":
				got := c13Val(ds.Value(c13K(s.Key)))
				if want := lookup(op.Level, s.Key); got != want {
					return failf("C13/overlay", fmt.Sprintf("locked=%v", op.Locked), "op %d: Value(k%d) at level %d = %d, model says %d", oi, s.Key, op.Level, got, want)
				}
			}
		}
		if locker != nil {
			_ = locker.Commit()
		}
		// whole-state comparison: every level, every key; a child's writes never show in a parent
		for l := 0; l < in.Depth; l++ {
			for k := 0; k < 3; k++ {
				if got, want := c13Val(chain[l].Value(c13K(k))), lookup(l, k); got != want {
					return failf("C13/overlay", "state", "after op %d: level %d key %d = %d, model says %d", oi, l, k, got, want)
				}
			}
			keys := chain[l].Keys()
			if len(keys) != len(model[l]) {
				return failf("C13/overlay", "keys", "after op %d: level %d Keys() = %v, model has %d own keys", oi, l, keys, len(model[l]))
			}
		}
	}
	return nil
}

func c13GetOrCreate(in *c13In, env *Env) *Failure {
	var post *Failure
	res := env.Sim(SimOpts{MaxSteps: 30000, FairSteps: 30000}, func() {
		root := scope.New(scope.Params{Name: "root"})
		target := root
		if in.OnChild {
			target = scope.NewChild(root, scope.ChildParams{Name: "child"})
		}
		tu := tasks.NewUnit(tasks.UnitDeps{})
		eu := &envs.Unit{}
		wm := waits.NewWaitManager()
		type got struct{ a, b, c interface{} }
		results := make([]got, in.Callers)
		var wg simrt.WaitGroup
		wg.Add(in.Callers)
		for i := 0; i < in.Callers; i++ {
			i := i
			simrt.GoNamed(fmt.Sprintf("caller%d", i), func() {
				defer wg.Done()
				a, err := tu.FromScope(target)
				if err != nil {
					post = failf("C13/get-or-create", "error", "FromScope: %v", err)
				}
				b, err := eu.Envs(target)
				if err != nil {
					post = failf("C13/get-or-create", "error", "Envs: %v", err)
				}
				c, err := wm.ForScope(target)
				if err != nil {
					post = failf("C13/get-or-create", "error", "ForScope: %v", err)
				}
				results[i] = got{a, b, c}
			})
		}
		wg.Wait()
		for i := 1; i < in.Callers && post == nil; i++ {
			if results[i].a != results[0].a {
				post = failf("C13/get-or-create", "tasks", "two callers of the task-manager service got different instances for one scope")
			}
			if results[i].b != results[0].b {
				post = failf("C13/get-or-create", "envs", "two callers of the environments service got different instances for one scope")
			}
			if results[i].c != results[0].c {
				post = failf("C13/get-or-create", "waits", "two callers of the wait-manager service got different instances for one scope")
			}
		}
	})
	if res.Decisions > 0 {
		env.Count("nontrivial")
	}
	if f := env.SimFailure("C13", res); f != nil {
		return f
	}
	if len(res.Races) > 0 {
		rc := res.Races[0]
		return failf("C13/map-race", fmt.Sprintf("%s|%s", siteName(rc.Site1), siteName(rc.Site2)), "unsynchronised %s access to %s: %s vs %s", rc.Kind, rc.MapLabel, siteName(rc.Site1), siteName(rc.Site2))
	}
	return post
}

func c13Shrink(inI interface{}) []interface{} {
	in := inI.(*c13In)
	var out []interface{}
	cp := func() *c13In {
		c := *in
		c.Tasks = nil
		for _, t := range in.Tasks {
			var ops []c13Op
			for _, o := range t {
				o.Steps = append([]c13Step(nil), o.Steps...)
				ops = append(ops, o)
			}
			c.Tasks = append(c.Tasks, ops)
		}
		return &c
	}
	if in.Shape == 3 {
		for _, ch := range c13ChainShrink(in.Chain) {
			c := *in
			c.Chain = ch
			out = append(out, &c)
		}
		return out
	}
	if in.Shape == 2 && in.Callers > 2 {
		c := cp()
		c.Callers--
		out = append(out, c)
	}
	for i := range in.Tasks {
		if len(in.Tasks) > 1 && in.Shape == 1 {
			c := cp()
			c.Tasks = append(c.Tasks[:i], c.Tasks[i+1:]...)
			out = append(out, c)
		}
		for j := range in.Tasks[i] {
			c := cp()
			c.Tasks[i] = append(c.Tasks[i][:j], c.Tasks[i][j+1:]...)
			out = append(out, c)
			for k := range in.Tasks[i][j].Steps {
				if len(in.Tasks[i][j].Steps) > 1 {
					c := cp()
					c.Tasks[i][j].Steps = append(c.Tasks[i][j].Steps[:k], c.Tasks[i][j].Steps[k+1:]...)
					out = append(out, c)
				}
			}
		}
	}
	return out
}

func init() {
	register(&Prop{
		ID:     "C13",
		Level:  "exploration",
		Gen:    c13Gen,
		New:    func() interface{} { return &c13In{} },
		Run:    c13Run,
		Shrink: c13Shrink,
		Rule: "one case = sequential overlay history on a chain of depth<=4 (model refinement), or 2-5 clients x <=14 operations (locked read-modify-write sections, plain reads/writes, unique values) on one data scope x one seeded schedule, checked for linearizability with porcupine (a locked section is one operation), or N concurrent callers of the three get-or-create services, or a 2-3 level chain used by 2-4 tasks with locked sections reaching into descendants or falling through to ancestors (no task blocks for ever, reads attributable, own value wins, child writes invisible above); " +
			"non-trivial = a scheduling decision with more than one runnable task (sequential histories always count); distinct = distinct (input, decision sequence)",
		Real: []string{"app/scope/datascope (DataScope, DataChildScope, DataLocker)", "tasks.Unit.FromScope", "envs.Unit.Envs", "waits.WaitManager.ForScope", "app/scope"},
		Stub: []string{"sync.RWMutex -> simrt", "scheduler", "porcupine v1.3.0 as the history checker (outside the simulation)"},
		Assumptions: []string{
			"only operations on the same scope object are in the linearizability model; a child's locker reading through to an unlocked parent is outside the statement",
			"stored values are non-nil (a stored nil is indistinguishable from 'absent' through Value)",
		},
	})
}
