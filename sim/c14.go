package simcheck

import (
	"fmt"
	"sort"
	"strings"
	"time"

	"github.com/goatcms/goatcore/app"
	"github.com/goatcms/goatcore/app/gio"
	"github.com/goatcms/goatcore/app/modules/commonm/commservices"
	"github.com/goatcms/goatcore/app/modules/pipelinem/pipservices"
	"github.com/goatcms/goatcore/app/modules/pipelinem/pipservices/namespaces"
	"github.com/goatcms/goatcore/app/scope"
	"github.com/goatcms/goatcore/app/scope/contextscope"
	"simrt"
)

// C14 — pipeline tasks honour wait lists and never run after a failed prerequisite.
//
// A complete application is assembled inside the simulation (simapp.go). A generated
// program is a DAG of up to 6 tasks (wait list = subset of earlier names, optionally a name
// that does not exist; a chosen subset fails at a chosen command; bodies may submit a nested
// pip:run; tasks may carry read/write lock maps). One or two submitter tasks hand the tasks
// to the real Runner.Run with simulated gaps, each in its own child scope of the
// application scope (isolated context, so one task's failure does not cancel its
// siblings; or shared, where only the order/prefix clauses are judged).

type c14Task struct {
	Name     string   `json:"name"`
	Wait     []string `json:"wait,omitempty"`
	Steps    int      `json:"steps"`             // number of work commands between begin and end
	WorkMS   []int    `json:"work_ms,omitempty"` // simulated duration of each work command
	FailAt   int      `json:"fail_at"`           // -1: never; k: a failing command after k work commands
	Nested   bool     `json:"nested,omitempty"`  // the body submits a nested task through pip:run
	NestFail bool     `json:"nest_fail,omitempty"`
	NestLock int      `json:"nest_lock,omitempty"` // nested task: 0 no lock flags, 1 --wlock=nl, 2 --rlock=nl, 3 the name in both --wlock and --rlock (still a writer)
	RLock    []string `json:"rlock,omitempty"`
	WLock    []string `json:"wlock,omitempty"`
	GapMS    int      `json:"gap_ms"` // the submitter sleeps this long before submitting
	By       int      `json:"by"`     // which submitter
}

type c14In struct {
	Tasks      []c14Task `json:"tasks"`
	Submitters int       `json:"submitters"`
	Isolated   bool      `json:"isolated"`
}

func c14Gen(r *Rand, tier string) interface{} {
	in := &c14In{Submitters: 1 + r.Intn(2), Isolated: r.Chance(3, 4)}
	n := 1 + r.Intn(5)
	if tier == "thorough" {
		n = 1 + r.Intn(6)
	}
	failing := r.Chance(1, 2)
	for i := 0; i < n; i++ {
		t := c14Task{Name: fmt.Sprintf("t%d", i), Steps: r.Intn(3), FailAt: -1, GapMS: r.Pick(0, 0, 1, 5, 20), By: r.Intn(in.Submitters)}
		for k := 0; k < t.Steps; k++ {
			t.WorkMS = append(t.WorkMS, r.Pick(0, 1, 5, 30))
		}
		for j := 0; j < i; j++ {
			if r.Chance(1, 3) {
				t.Wait = append(t.Wait, fmt.Sprintf("t%d", j))
			}
		}
		// the order of a wait list is free and a name may be given twice
		if len(t.Wait) > 1 && r.Chance(1, 2) {
			for k := len(t.Wait) - 1; k > 0; k-- {
				j := r.Intn(k + 1)
				t.Wait[k], t.Wait[j] = t.Wait[j], t.Wait[k]
			}
		}
		if len(t.Wait) > 0 && r.Chance(1, 4) {
			d := t.Wait[r.Intn(len(t.Wait))]
			at := r.Intn(len(t.Wait) + 1)
			t.Wait = append(t.Wait[:at], append([]string{d}, t.Wait[at:]...)...)
		}
		if r.Chance(1, 12) {
			t.Wait = append(t.Wait, "ghost")
		}
		if r.Chance(1, 15) {
			t.Wait = append(t.Wait, t.Name) // itself: not a task that already exists either
		}
		if failing && r.Chance(1, 3) {
			t.FailAt = r.Intn(t.Steps + 1)
		}
		if r.Chance(1, 4) {
			t.Nested = true
			t.NestFail = failing && r.Chance(1, 3)
			t.NestLock = r.Pick(0, 0, 1, 2, 3, 3)
		}
		for _, res := range []string{"db", "fs"} {
			switch r.Intn(6) {
			case 0:
				t.RLock = append(t.RLock, res)
			case 1:
				t.WLock = append(t.WLock, res)
			}
		}
		in.Tasks = append(in.Tasks, t)
	}
	return in
}

// body renders the script of a task. Every probe carries the task's name.
func (t c14Task) body() string {
	var sb strings.Builder
	fmt.Fprintf(&sb, "begin --id=%s\n", t.Name)
	for k := 0; k <= t.Steps; k++ {
		if k == t.FailAt {
			fmt.Fprintf(&sb, "fail --id=%s\n", t.Name)
		}
		if k == 0 && t.Nested {
			flags := []string{"", " --wlock=nl", " --rlock=nl", " --wlock=nl --rlock=nl"}[t.NestLock%4]
			fmt.Fprintf(&sb, "pip:run --name=n --silent=true%s --body=<<EOB\nbegin --id=%s.n\nwork --id=%s.n --ms=3\n", flags, t.Name, t.Name)
			if t.NestFail {
				fmt.Fprintf(&sb, "fail --id=%s.n\n", t.Name)
			}
			fmt.Fprintf(&sb, "end --id=%s.n\nEOB\n", t.Name)
		}
		if k < t.Steps {
			fmt.Fprintf(&sb, "work --id=%s --ms=%d\n", t.Name, t.WorkMS[k])
		}
	}
	fmt.Fprintf(&sb, "end --id=%s\n", t.Name)
	return sb.String()
}

// expected probe kinds of the task's own body, in script order
func (t c14Task) script() []string {
	out := []string{"begin"}
	for k := 0; k <= t.Steps; k++ {
		if k == t.FailAt {
			out = append(out, "fail")
			return out
		}
		if k < t.Steps {
			out = append(out, "work")
		}
	}
	return append(out, "end")
}

func c14Run(inI interface{}, env *Env) *Failure {
	in := inI.(*c14In)
	var (
		sa        *simApp
		post      *Failure
		accepted  = map[string]bool{}
		rejected  = map[string]error{}
		taskErrs  = map[string]int{}
		waitErr   error
		waited    bool
		intervals = map[string][2]int{} // lock holders: first/last body event per task
	)
	res := env.Sim(SimOpts{MaxSteps: 400000, FairSteps: 100000}, func() {
		sa = newSimApp("", 1)
		var deps struct {
			Runner pipservices.Runner `dependency:"PipRunner"`
		}
		if err := sa.mapp.DependencyProvider().InjectTo(&deps); err != nil {
			panic(harnessTrouble{"inject PipRunner: " + err.Error()})
		}
		appScope := sa.mapp.Scopes().App()
		manager := sa.tasksManager() // bound to the application scope, as pip:try does
		ns := namespaces.NewNamespaces(pipservices.NamasepacesParams{})
		var scopes []app.Scope
		// the wait lists a caller hands in are views into one array of its own (a parsed
		// command line, a plan): lists that share elements alias each other; the runner only
		// reads them
		waitLists := c14SharedWaitLists(in.Tasks)
		var wg simrt.WaitGroup
		wg.Add(in.Submitters)
		for s := 0; s < in.Submitters; s++ {
			s := s
			simrt.GoNamed(fmt.Sprintf("submitter%d", s), func() {
				defer wg.Done()
				for _, t := range in.Tasks {
					if t.By != s {
						continue
					}
					if t.GapMS > 0 {
						simrt.Sleep(time.Duration(t.GapMS) * time.Millisecond)
					} else {
						simrt.Yield()
					}
					cp := scope.ChildParams{Name: "submit:" + t.Name}
					if in.Isolated {
						cp.ContextScope = contextscope.NewIsolated(appScope.BaseContextScope())
					}
					ctxScope := scope.NewChild(appScope, cp)
					scopes = append(scopes, ctxScope)
					lock := commservices.LockMap{}
					for _, n := range t.RLock {
						lock[n] = commservices.LockR
					}
					for _, n := range t.WLock {
						lock[n] = commservices.LockRW
					}
					err := deps.Runner.Run(pipservices.Pip{
						Context: pipservices.PipContext{
							In: gio.NewInput(strings.NewReader(t.body())), Out: gio.NewNilOutput(), Err: gio.NewNilOutput(),
							CWD: sa.mapp.Filespaces().CWD(), Scope: ctxScope,
						},
						Name: t.Name, Namespaces: ns, Sandbox: "self", Lock: lock, Wait: waitLists[t.Name],
					})
					if err != nil {
						rejected[t.Name] = err
					} else {
						accepted[t.Name] = true
					}
				}
			})
		}
		wg.Wait()
		waitErr = manager.Wait()
		waited = true
		for _, name := range manager.Names() {
			if tk, ok := manager.Get(name); ok {
				taskErrs[name] = len(tk.Errors())
			}
		}
		for _, sc := range scopes {
			func() {
				defer func() { recover() }() // closing is C11's business
				_ = sc.Close()
			}()
		}
	})
	if res.Decisions > 0 && len(accepted) > 0 {
		env.Count("nontrivial")
	}
	if f := env.SimFailure("C14", res); f != nil {
		if (f.Clause == "C14/deadlock" || f.Clause == "C14/no-termination") && !waited {
			f.Clause = "C14/manager-wait-never-returns"
			f.Key = fmt.Sprintf("rejected=%d", len(rejected))
			f.Msg = fmt.Sprintf("TasksManager.Wait did not return although every accepted task could finish (accepted %v, rejected %v): %s", sortedNames(accepted), len(rejected), f.Msg)
		}
		return f
	}
	if len(res.Races) > 0 {
		rc := res.Races[0]
		return failf("C14/map-race", fmt.Sprintf("%s|%s", siteName(rc.Site1), siteName(rc.Site2)), "unsynchronised %s access to %s: %s vs %s", rc.Kind, rc.MapLabel, siteName(rc.Site1), siteName(rc.Site2))
	}
	if post != nil {
		return post
	}
	byName := map[string]c14Task{}
	for _, t := range in.Tasks {
		byName[t.Name] = t
	}
	// acceptance: a task may only wait for tasks that already exist
	for _, t := range in.Tasks {
		for _, w := range t.Wait {
			if (w == "ghost" || w == t.Name) && accepted[t.Name] {
				return failf("C14/accepted-unknown-wait", "", "task %s waits for %q which does not exist, yet the submission was accepted", t.Name, w)
			}
		}
	}
	anyFailed := false
	for _, t := range in.Tasks {
		if !accepted[t.Name] {
			if evs := sa.eventsOf(t.Name); len(evs) > 0 {
				return failf("C14/rejected-task-ran", "", "submission of %s was rejected (%v) but its body ran: %v", t.Name, rejected[t.Name], evs)
			}
			continue
		}
		own := sa.eventsOf(t.Name)
		failed := taskErrs[t.Name] > 0
		if failed {
			anyFailed = true
		}
		// body events are in script order and stop at the first failing command
		script := t.script()
		for i, e := range own {
			if i >= len(script) || e.Kind != script[i] {
				return failf("C14/body-order", "", "task %s: body events %v are not a prefix of its script %v", t.Name, kinds(own), script)
			}
		}
		// a failed prerequisite: body never executed, task ends failed
		// with a shared context every task sees every error: "the prerequisite ended with an
		// error" can only be told apart per task when contexts are isolated
		waitFailed := false
		for _, w := range t.Wait {
			if in.Isolated && taskErrs[w] > 0 {
				waitFailed = true
			}
		}
		if waitFailed {
			if len(own) > 0 {
				return failf("C14/ran-after-failed-prerequisite", "", "task %s executed %v although a task of its wait list %v ended with errors", t.Name, kinds(own), t.Wait)
			}
			if !failed {
				return failf("C14/not-failed-after-failed-prerequisite", "", "task %s waits for a failed task (%v) but ended without error", t.Name, t.Wait)
			}
		}
		// starts only after every task of its wait list has finished (nested tasks included)
		if len(own) > 0 {
			first := own[0].Seq
			for _, w := range t.Wait {
				for _, e := range sa.events {
					if (e.ID == w || e.ID == w+".n") && e.Seq > first {
						return failf("C14/started-before-prerequisite-finished", "", "task %s began (event %d) before %s finished (its %s event is number %d)", t.Name, first, w, e.Kind, e.Seq)
					}
				}
			}
			intervals[t.Name] = [2]int{own[0].Seq, own[len(own)-1].Seq}
		}
		if in.Isolated {
			// failures do not leak between tasks: the outcome is exactly predictable
			ownFail := t.FailAt >= 0 && len(own) > 0 && own[len(own)-1].Kind == "fail"
			nestFail := t.Nested && t.NestFail && len(sa.eventsOf(t.Name+".n")) > 0 && (t.FailAt != 0)
			if ownFail && !failed {
				return failf("C14/failure-not-recorded", "own", "task %s executed its failing command but ended without error", t.Name)
			}
			if !failed && len(own) > 0 && own[len(own)-1].Kind != "end" && !waitFailed {
				return failf("C14/body-cut-short", "", "task %s ended without error but its body stopped at %v (script %v)", t.Name, kinds(own), script)
			}
			if failed && !ownFail && !nestFail && !waitFailed && t.FailAt < 0 && !(t.Nested && t.NestFail) {
				return failf("C14/spurious-failure", "", "task %s has no failing command, no failing nested task and no failed prerequisite, yet it ended with %d errors", t.Name, taskErrs[t.Name])
			}
		}
	}
	// lock maps attached to tasks: writers exclude everyone (C15 rider)
	names := sortedNamesI(intervals)
	for i, a := range names {
		for _, b := range names[i+1:] {
			ia, ib := intervals[a], intervals[b]
			if ia[0] < ib[1] && ib[0] < ia[1] { // body intervals overlap
				for _, res := range []string{"db", "fs"} {
					wa, wb := has(byName[a].WLock, res), has(byName[b].WLock, res)
					ra, rb := has(byName[a].RLock, res), has(byName[b].RLock, res)
					if (wa && (wb || rb)) || (wb && (wa || ra)) {
						return failf("C14/lock-map-not-honoured", res, "tasks %s and %s both hold %q (at least one for writing) and their bodies overlap: %v %v", a, b, res, ia, ib)
					}
				}
			}
		}
	}
	// the same through the command line of pip:run (nested tasks): a name given to --wlock is
	// held for writing, whatever else the line says
	var nested []c14Task
	for _, t := range in.Tasks {
		if t.Nested && t.NestLock != 0 && len(sa.eventsOf(t.Name+".n")) > 0 {
			nested = append(nested, t)
		}
	}
	for i, a := range nested {
		for _, b := range nested[i+1:] {
			ea, eb := sa.eventsOf(a.Name+".n"), sa.eventsOf(b.Name+".n")
			ia, ib := [2]int{ea[0].Seq, ea[len(ea)-1].Seq}, [2]int{eb[0].Seq, eb[len(eb)-1].Seq}
			writer := a.NestLock != 2 || b.NestLock != 2
			if writer && ia[0] < ib[1] && ib[0] < ia[1] {
				return failf("C14/lock-map-not-honoured", "pip:run flags", "nested tasks %s.n (lock flags %d) and %s.n (lock flags %d) both name \"nl\", at least one with --wlock, and their bodies overlap: %v %v", a.Name, a.NestLock, b.Name, b.NestLock, ia, ib)
			}
		}
	}
	if len(nested) > 1 {
		env.Count("probe.nested-tasks-with-lock-flags")
	}
	if anyFailed != (waitErr != nil) {
		return failf("C14/manager-wait-result", "", "TasksManager.Wait returned %v but tasks with errors: %v", waitErr, taskErrs)
	}
	return nil
}

func has(l []string, s string) bool {
	for _, x := range l {
		if x == s {
			return true
		}
	}
	return false
}

func kinds(evs []probeEvent) []string {
	var out []string
	for _, e := range evs {
		out = append(out, e.Kind)
	}
	return out
}

func sortedNamesI(m map[string][2]int) []string {
	var out []string
	for k := range m {
		out = append(out, k)
	}
	sort.Strings(out)
	return out
}

func c14Shrink(inI interface{}) []interface{} {
	in := inI.(*c14In)
	var out []interface{}
	cp := func() *c14In {
		c := *in
		c.Tasks = nil
		for _, t := range in.Tasks {
			t.Wait = append([]string(nil), t.Wait...)
			t.WorkMS = append([]int(nil), t.WorkMS...)
			t.RLock = append([]string(nil), t.RLock...)
			t.WLock = append([]string(nil), t.WLock...)
			c.Tasks = append(c.Tasks, t)
		}
		return &c
	}
	for i := range in.Tasks {
		// drop a task nobody waits for
		used := false
		for _, t := range in.Tasks {
			if has(t.Wait, in.Tasks[i].Name) {
				used = true
			}
		}
		if !used && len(in.Tasks) > 1 {
			c := cp()
			c.Tasks = append(c.Tasks[:i], c.Tasks[i+1:]...)
			out = append(out, c)
		}
		if len(in.Tasks[i].Wait) > 0 {
			for j := range in.Tasks[i].Wait {
				c := cp()
				c.Tasks[i].Wait = append(c.Tasks[i].Wait[:j], c.Tasks[i].Wait[j+1:]...)
				out = append(out, c)
			}
		}
		if in.Tasks[i].Nested {
			c := cp()
			c.Tasks[i].Nested = false
			out = append(out, c)
		}
		if in.Tasks[i].Steps > 0 {
			c := cp()
			c.Tasks[i].Steps = 0
			c.Tasks[i].WorkMS = nil
			if c.Tasks[i].FailAt > 0 {
				c.Tasks[i].FailAt = 0
			}
			out = append(out, c)
		}
		if len(in.Tasks[i].RLock)+len(in.Tasks[i].WLock) > 0 {
			c := cp()
			c.Tasks[i].RLock, c.Tasks[i].WLock = nil, nil
			out = append(out, c)
		}
		if in.Tasks[i].GapMS > 0 {
			c := cp()
			c.Tasks[i].GapMS = 0
			out = append(out, c)
		}
	}
	if in.Submitters > 1 {
		c := cp()
		c.Submitters = 1
		for i := range c.Tasks {
			c.Tasks[i].By = 0
		}
		out = append(out, c)
	}
	return out
}

func init() {
	register(&Prop{
		ID:     "C14",
		Level:  "exploration",
		Gen:    c14Gen,
		New:    func() interface{} { return &c14In{} },
		Run:    c14Run,
		Shrink: c14Shrink,
		Rule: "one case = a DAG of 1-6 tasks (wait lists over earlier names, sometimes a name that does not exist; a failing command at a chosen position in some; nested pip:run in some bodies; read/write lock maps; simulated work durations and submission gaps; 1-2 submitters; per-submission scopes with isolated or shared context) run by the real Runner through the whole application x one seeded schedule; " +
			"non-trivial = at least one accepted task and a scheduling decision with more than one runnable task; distinct = distinct (input, decision sequence)",
		Real: []string{"goatapp.NewMockupApp + bootstrap (terminalm, commonm, ocm, pipelinem modules) on memfs", "pipservices/runner", "pipservices/tasks (manager, task)", "sandboxes/selfsb", "terminal/termexec RunLoop + varutil.ReadArguments (every body goes through it)", "pipc.Run for nested tasks", "commservices/mutex", "app/scope", "app/gio"},
		Stub: []string{"probe commands begin/end/work/fail registered in the application's terminal", "sync primitives, scheduler, clock (simrt)", "submitters (harness tasks calling Runner.Run)"},
		Assumptions: []string{
			"tasks are submitted through Runner.Run with a long-lived scope (a pip:run line in a terminal blocks its own loop until the task ends, so top-level terminal scripts never overlap tasks)",
			"with a shared context one failing task cancels its running siblings; there only the order / prefix / prerequisite clauses are judged, the exact outcome per task only with isolated contexts",
		},
	})
}


// c14SharedWaitLists lays the wait lists of all tasks out in one backing array; a list that
// already occurs there as a run of neighbours is a sub-slice of that run (aliasing), and a
// list whose beginning equals the end of the array overlaps it.
func c14SharedWaitLists(tasks []c14Task) map[string][]string {
	var all []string
	type span struct{ from, n int }
	spans := map[string]span{}
	for _, t := range tasks {
		n := len(t.Wait)
		if n == 0 {
			spans[t.Name] = span{0, 0}
			continue
		}
		at := -1
		for i := 0; i+n <= len(all) && at < 0; i++ {
			match := true
			for k := 0; k < n; k++ {
				if all[i+k] != t.Wait[k] {
					match = false
					break
				}
			}
			if match {
				at = i
			}
		}
		if at < 0 {
			// longest overlap of the list's beginning with the array's end
			for ov := min(n-1, len(all)); ov > 0 && at < 0; ov-- {
				match := true
				for k := 0; k < ov; k++ {
					if all[len(all)-ov+k] != t.Wait[k] {
						match = false
						break
					}
				}
				if match {
					at = len(all) - ov
					all = append(all, t.Wait[ov:]...)
				}
			}
		}
		if at < 0 {
			at = len(all)
			all = append(all, t.Wait...)
		}
		spans[t.Name] = span{at, n}
	}
	out := map[string][]string{}
	for name, sp := range spans {
		out[name] = all[sp.from : sp.from+sp.n]
	}
	return out
}
