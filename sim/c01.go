package simcheck

import (
	"bytes"
	"fmt"
	"os"
	"strings"

	"github.com/goatcms/goatcore/filesystem"
	"github.com/goatcms/goatcore/filesystem/filespace/memfs"
	"simrt"
)

// C01 — in-memory filespace = abstract tree on every history (single task, fault-free).
//
// A history of operations on the root filespace and on child views, with paths from a
// small pool rendered in many spellings, is compared step by step with ModelTree; after
// every step the whole observable tree and a set of queries are compared; snapshot
// pseudo-operations mutate buffers handed in / out earlier.

type fsHistIn struct {
	Ops  []FsOp    `json:"ops"`
	Wide *WideSpec `json:"wide,omitempty"` // the history starts with a many-entry directory "w" (created, partly removed)
}

var debugOps = os.Getenv("SIM_DEBUG") != ""

// "ab" is a string prefix-extension of "a": code that matches paths by string prefix instead of
// by segment is exposed
var poolNames = []string{"a", "b", "c", "ab"}

// poolName draws a name: the four pool names twice as often as "A", which differs from "a"
// by case only (code that compares names case-insensitively is exposed)
func poolName(r *Rand) string {
	if i := r.Intn(9); i < 8 {
		return poolNames[i/2]
	}
	return "A"
}
var exoticNames = []string{"x.y", "...", "a b", "é", ".hid", "A", "AB", "A"} // "A" differs from "a" by case only

// spell renders a normalised path in one of the spellings the quantifier names; it never
// climbs above the root.
func spell(r *Rand, segs []string) string {
	if len(segs) == 0 {
		return []string{"", ".", "/", "./", "a/..", "./."}[r.Intn(6)]
	}
	var parts []string
	for i, s := range segs {
		switch r.Intn(12) {
		case 0:
			parts = append(parts, ".")
		case 1:
			parts = append(parts, "")
		case 2:
			if i > 0 || r.Bool() {
				parts = append(parts, "zz", "..")
			}
		}
		parts = append(parts, s)
	}
	p := strings.Join(parts, "/")
	switch r.Intn(10) {
	case 0:
		p = "/" + p
	case 1:
		p = "./" + p
	case 2:
		p = p + "/"
	case 3:
		p = p + "/."
	}
	return p
}

func poolPath(r *Rand, maxDepth int) []string {
	d := r.Intn(maxDepth + 1)
	if d == 0 && r.Chance(3, 4) {
		d = 1 + r.Intn(maxDepth)
	}
	var segs []string
	for i := 0; i < d; i++ {
		if r.Chance(1, 25) {
			// unusual but legal names: dots that are not '.'/'..', a blank, a non-ASCII letter
			segs = append(segs, exoticNames[r.Intn(len(exoticNames))])
			continue
		}
		segs = append(segs, poolName(r))
	}
	return segs
}

var fsOpKinds = []string{"WriteFile", "WriteFile", "WriteFile", "Writer", "MkdirAll", "MkdirAll", "Remove", "RemoveAll", "Copy", "CopyFile", "CopyDirectory",
	"ReadFile", "Reader", "ReadDir", "IsExist", "IsFile", "IsDir", "Lstat", "Filespace"}

// genFsOps draws n operations. A generator-side copy of the model (gm, may be nil = empty
// tree) is kept in step so that most operations are valid where they are issued (existing
// sources, absent destinations, removable nodes): histories then build real state instead of
// bouncing off preconditions; about one in six operations is left completely random.
func genFsOps(r *Rand, n int, extra []string, plainSpelling bool, gm *ModelTree) []FsOp {
	var ops []FsOp
	if gm == nil {
		gm = NewModelTree()
	} else {
		gm = gm.Clone()
	}
	prefixes := [][]string{nil}
	kinds := append(append([]string{}, fsOpKinds...), extra...)
	sp := func(segs []string) string {
		if plainSpelling {
			return strings.Join(segs, "/")
		}
		return spell(r, segs)
	}
	draw := func(i int) FsOp {
		op := FsOp{Kind: kinds[r.Intn(len(kinds))]}
		if len(prefixes) > 1 && r.Chance(1, 3) {
			op.View = r.Intn(len(prefixes))
		}
		op.Path = sp(poolPath(r, 3))
		if gm.has("w") && r.Chance(1, 3) {
			// the many-entry directory, when the history has one: its entries (present, removed or new) and itself
			op.Path = sp([]string{"w", fmt.Sprintf("n%03d", r.Intn(150))})
			if op.Kind == "ReadDir" || (op.Kind == "Filespace") || r.Chance(1, 12) || ((op.Kind == "Copy" || op.Kind == "CopyDirectory") && r.Chance(1, 2)) {
				op.Path = sp([]string{"w"})
			}
		}
		switch op.Kind {
		case "WriteFile", "Writer":
			op.Data = fmt.Sprintf("#%d:%s", i, strings.Repeat("x", r.Pick(0, 0, 1, 3, 17, 64)))
			if r.Chance(1, 10) {
				op.Data = ""
			}
			if r.Chance(1, 15) {
				op.Data += "\x00é\n\"q\"" // a NUL, a non-ASCII letter, a newline, quotes
			}
			if r.Chance(1, 25) && op.Data != "" {
				op.Big = r.Pick(4096, 33000, 70000) // past buffer, page and "large file" thresholds
				switch r.Intn(3) {
				case 0:
					op.Big = r.Pick(4096, 8192, 12288, 70000)
					op.Zero = true // all-zero blocks and a zero tail: what a sparse-aware copy skips
				case 1:
					op.Big = r.Pick(256, 300, 4096, 70000)
					op.Bin = true // every byte value, not valid UTF-8
				}
			}
			if op.Kind == "Writer" {
				for k := r.Intn(4); k > 0; k-- {
					op.Chunks = append(op.Chunks, r.Pick(0, 1, 2, 5, 100))
				}
				if op.Big >= 70000 && r.Chance(1, 2) {
					op.Chunks = append([]int{65536}, op.Chunks...) // a first chunk of 64 KiB
				}
			}
		case "Reader":
			for k := r.Intn(3); k > 0; k-- {
				op.Chunks = append(op.Chunks, r.Pick(0, 1, 2, 3, 7, 64)) // a zero-length buffer is a legal Read
			}
		case "Copy", "CopyFile", "CopyDirectory":
			op.Path2 = sp(poolPath(r, 3))
			// a directory copied into itself is outside every statement (and through the
			// stream copy helpers it recurses until the 2-minute lifecycle deadline): not generated
			s1, _ := normPath(op.Path)
			s2, _ := normPath(op.Path2)
			if hasPrefix(s2, s1) {
				op = FsOp{Kind: "IsExist", Path: op.Path, View: op.View}
			}
		case "Filespace":
			if len(prefixes) >= 4 {
				op.Kind = "ReadDir"
			}
		case "MutateWritten", "MutateRead":
			op.Ref = r.Intn(1 + i)
			op.Path = ""
		}
		return op
	}
	for i := 0; i < n; i++ {
		var op FsOp
		var exp Expect
		guided := r.Chance(5, 6)
		for try := 0; try < 6; try++ {
			op = draw(i)
			if op.Kind == "MutateWritten" || op.Kind == "MutateRead" || op.Kind == "Filespace" {
				break
			}
			exp = gm.Expectation(prefixes[op.View], op)
			if !guided || exp.Outcome == MustOK {
				break
			}
		}
		switch op.Kind {
		case "MutateWritten", "MutateRead":
		case "Filespace":
			if rel, climbs := normPath(op.Path); !climbs {
				prefixes = append(prefixes, append(append([]string{}, prefixes[op.View]...), rel...))
			} else {
				op.Kind = "ReadDir"
			}
		default:
			if exp.Outcome == "" {
				exp = gm.Expectation(prefixes[op.View], op)
			}
			if exp.Outcome == MustOK && exp.apply != nil {
				exp.apply()
			}
		}
		ops = append(ops, op)
	}
	return ops
}

func c01Gen(r *Rand, tier string) interface{} {
	n := 1 + r.Intn(40)
	if r.Chance(1, 3) {
		n = 1 + r.Intn(8)
	}
	if tier == "thorough" && r.Chance(1, 10) {
		n = 40 + r.Intn(160)
	}
	in := &fsHistIn{}
	var gm *ModelTree
	if r.Chance(1, 20) {
		in.Wide = genWide(r)
		gm = NewModelTree()
		_ = in.Wide.Apply(nil, gm, nil)
		n = 1 + r.Intn(12) // every step walks the whole tree: keep these histories short
	}
	in.Ops = genFsOps(r, n, []string{"MutateWritten", "MutateRead"}, false, gm)
	return in
}

// fsView is one view of the implementation with its model prefix.
type fsView struct {
	fs     filesystem.Filespace
	prefix []string
}

// histChecker drives one implementation against the model.
type histChecker struct {
	prop     string
	model    *ModelTree
	root     filesystem.Filespace
	views    []fsView
	written  [][]byte // buffers handed to WriteFile, still owned by the caller
	readBack []snap   // slices handed out by ReadFile
	listings []lsnap  // listings handed out by ReadDir
	env      *Env
	cut      bool
	classify func(clause string, op FsOp, msg string) string // names recognised causes (known findings)
	// lenientMutations: the statement only speaks about the answers of read-type operations
	// (cache properties). A mutation's own outcome is not judged: refused -> model unchanged,
	// accepted although the model has no direct application for it -> the history is cut.
	lenientMutations bool
	ignoreReads      bool // read-type operations are executed but not judged (C06 judges the remote only)
	noSize           bool // Lstat sizes are those of the stored (encrypted) bytes: not compared
}

type snap struct {
	live []byte
	copy []byte
}
type lsnap struct {
	live  []os.FileInfo
	names []string
}

func (h *histChecker) fail(clause, key, msg string, i int, op FsOp) *Failure {
	if h.classify != nil {
		if c := h.classify(clause, op, msg); c != "" {
			key = c
		}
	}
	return failf(h.prop+"/"+clause, key, "op %d %s: %s", i, op, msg)
}

// step executes one operation; returns a failure or nil.
func (h *histChecker) step(i int, op FsOp) *Failure {
	switch op.Kind {
	case "MutateWritten":
		if len(h.written) > 0 {
			b := h.written[op.Ref%len(h.written)]
			for j := range b {
				b[j] ^= 0x55
			}
			h.env.Count("probe.caller-buffer-mutated-after-write")
		}
		return nil
	case "MutateRead":
		if len(h.readBack) > 0 {
			s := &h.readBack[op.Ref%len(h.readBack)]
			for j := range s.live {
				s.live[j] ^= 0x2a
			}
			s.copy = append([]byte(nil), s.live...)
			h.env.Count("probe.returned-slice-mutated")
		}
		return nil
	}
	if op.View >= len(h.views) {
		op.View = 0
	}
	v := h.views[op.View]
	if op.Kind == "Filespace" {
		rel, climbs := normPath(op.Path)
		r := RunFsOp(v.fs, op)
		if r.Panic != "" {
			return h.fail("panic", "Filespace", r.Panic, i, op)
		}
		if climbs {
			return nil
		}
		segs := append(append([]string{}, v.prefix...), rel...)
		n := h.model.lookup(segs)
		if r.Err != nil {
			if n != nil && n.dir {
				return h.fail("refused-valid", "Filespace", fmt.Sprintf("child view of an existing directory refused: %v", r.Err), i, op)
			}
			return nil
		}
		h.views = append(h.views, fsView{fs: r.FS, prefix: segs})
		return nil
	}
	exp := h.model.Expectation(v.prefix, op)
	if h.noSize {
		exp.Size = -1
	}
	if h.lenientMutations && isMutation(op.Kind) && exp.Outcome == MustFail && i%4 != 0 {
		// the statements (C06, C07) say nothing about a mutation that has no direct application
		// on a plain tree; a cache that accepts one ends the judgeable part of the history.
		// Three of four such operations are therefore not issued at all, so that the
		// history goes on to the reads / Commits the statements are about.
		h.env.Count("probe.invalid-mutation-not-issued")
		return nil
	}
	var r FsResult
	if op.Kind == "WriteFile" {
		buf := op.Content()
		r.Err = func() (err error) {
			defer func() {
				if p := recover(); p != nil {
					if simrt.IsAbort(p) {
						panic(p)
					}
					r.Panic = fmt.Sprint(p)
				}
			}()
			return v.fs.WriteFile(op.Path, buf, filesystem.DefaultUnixFileMode)
		}()
		if r.Err == nil && len(buf) > 0 {
			h.written = append(h.written, buf)
		}
	} else {
		r = RunFsOp(v.fs, op)
	}
	if debugOps {
		fmt.Printf("DEBUG op %d %s -> err=%v panic=%q expect=%s(%s)\n", i, op, r.Err, r.Panic, exp.Outcome, exp.Why)
	}
	if h.lenientMutations && isMutation(op.Kind) && r.Panic == "" {
		switch {
		case r.Err != nil:
			if exp.Outcome == MustOK {
				h.env.Count("probe.mutation-refused-though-valid-on-the-model")
			}
			if op.Kind == "Copy" || op.Kind == "CopyDirectory" {
				// a tree copy that failed half-way is not atomic and no statement says it is:
				// the state is unknown from here on
				h.cut = true
				h.env.Count("probe.history-cut:failed tree copy (partial result)")
			}
			return nil
		case exp.Outcome == MustFail:
			h.cut = true
			h.env.Count("probe.history-cut:accepted an operation that has no direct application:" + op.Kind)
			return nil
		}
	}
	if h.ignoreReads && !isMutation(op.Kind) {
		if r.Panic != "" {
			return h.fail("panic", op.Kind, r.Panic, i, op)
		}
		return nil
	}
	clause, msg := Judge(exp, op, r)
	if clause != "" {
		return h.fail(clause, op.Kind, msg, i, op)
	}
	if exp.Outcome == Either && r.Err == nil && exp.apply == nil && exp.Why != "" && isMutation(op.Kind) {
		// the property does not say what the result of this success is: stop judging here
		h.cut = true
		h.env.Count("probe.history-cut:" + exp.Why)
		return nil
	}
	if exp.Outcome == Either {
		h.env.Count("probe.unspecified:" + exp.Why)
	}
	if r.Err == nil {
		switch op.Kind {
		case "ReadFile":
			if len(r.Data) > 0 {
				h.readBack = append(h.readBack, snap{live: r.Data, copy: append([]byte(nil), r.Data...)})
			}
		case "ReadDir":
			h.listings = append(h.listings, lsnap{live: r.Infos, names: infoNames(r.Infos)})
		}
	}
	return nil
}

func isMutation(kind string) bool {
	switch kind {
	case "WriteFile", "Writer", "MkdirAll", "Remove", "RemoveAll", "Copy", "CopyFile", "CopyDirectory":
		return true
	}
	return false
}

// compareState compares the whole observable tree, a set of queries in two spellings, and
// the snapshots handed out earlier.
func (h *histChecker) compareState(i int, op FsOp, r *Rand) *Failure {
	got, clause, msg := WalkFSLimit(h.root, h.model.WalkLimit())
	if clause != "" {
		return h.fail(clause, "walk", msg, i, op)
	}
	if d := DiffTrees(got, h.model.Flatten()); d != "" {
		return h.fail("tree-differs", op.Kind, d, i, op)
	}
	for _, s := range h.readBack {
		if !bytes.Equal(s.live, s.copy) {
			return h.fail("snapshot", "returned-slice-changed", fmt.Sprintf("a slice returned earlier by ReadFile changed from %q to %q", s.copy, s.live), i, op)
		}
	}
	for _, l := range h.listings {
		if now := infoNames(l.live); strings.Join(now, "|") != strings.Join(l.names, "|") {
			return h.fail("snapshot", "returned-listing-changed", fmt.Sprintf("a listing returned earlier by ReadDir changed from %v to %v", l.names, now), i, op)
		}
	}
	// queries on pool paths, several spellings, through every view
	for q := 0; q < 8; q++ {
		segs := poolPath(r, 3)
		for _, kind := range []string{"IsExist", "IsFile", "IsDir", "Lstat"} {
			vi := r.Intn(len(h.views))
			v := h.views[vi]
			qop := FsOp{Kind: kind, Path: spell(r, segs), View: vi}
			exp := h.model.Expectation(v.prefix, qop)
			if h.noSize {
				exp.Size = -1
			}
			res := RunFsOp(v.fs, qop)
			if c, m := Judge(exp, qop, res); c != "" {
				return h.fail(c, "query:"+kind, "then "+m, i, op)
			}
		}
	}
	return nil
}

func c01Run(inI interface{}, env *Env) *Failure {
	in := inI.(*fsHistIn)
	env.Count("nontrivial")
	mem, err := memfs.NewFilespace()
	if err != nil {
		panic(harnessTrouble{err.Error()})
	}
	h := &histChecker{prop: "C01", model: NewModelTree(), root: mem, views: []fsView{{fs: mem}}, env: env}
	qr := NewRand(uint64(len(in.Ops))*7919 + 17)
	if in.Wide != nil {
		env.Count("probe.history-with-a-many-entry-directory")
		if err := in.Wide.Apply(mem, h.model, mem); err != nil {
			return failf("C01/refused-valid", "wide", "building the many-entry directory: %v", err)
		}
		if f := h.compareState(-1, FsOp{Kind: "wide-directory", Path: fmt.Sprintf("%d created, %d removed", in.Wide.N, in.Wide.Remove)}, qr); f != nil {
			return f
		}
	}
	for i, op := range in.Ops {
		if f := h.step(i, op); f != nil {
			return f
		}
		if h.cut {
			break
		}
		if f := h.compareState(i, op, qr); f != nil {
			return f
		}
	}
	env.CountN("history.operations", len(in.Ops))
	return nil
}

func fsHistShrink(inI interface{}) []interface{} {
	in := inI.(*fsHistIn)
	var out []interface{}
	if in.Wide != nil {
		out = append(out, &fsHistIn{Ops: append([]FsOp(nil), in.Ops...)})
		if in.Wide.N > 65 {
			w := *in.Wide
			w.N = 65
			if w.Remove > w.N-1 {
				w.Remove = w.N - 1
			}
			out = append(out, &fsHistIn{Wide: &w, Ops: append([]FsOp(nil), in.Ops...)})
		}
	}
	// drop the tail, then single operations
	for n := len(in.Ops) / 2; n >= 1 && n < len(in.Ops); n = n + (len(in.Ops)-n+1)/2 {
		out = append(out, &fsHistIn{Wide: in.Wide, Ops: append([]FsOp(nil), in.Ops[:n]...)})
		if n == len(in.Ops)-1 {
			break
		}
	}
	for i := range in.Ops {
		c := &fsHistIn{Wide: in.Wide, Ops: append(append([]FsOp(nil), in.Ops[:i]...), in.Ops[i+1:]...)}
		out = append(out, c)
	}
	// simpler spellings and data
	for i, op := range in.Ops {
		segs, climbs := normPath(op.Path)
		if plain := strings.Join(segs, "/"); !climbs && plain != op.Path && op.Path != "" {
			c := &fsHistIn{Wide: in.Wide, Ops: append([]FsOp(nil), in.Ops...)}
			c.Ops[i].Path = plain
			out = append(out, c)
		}
		if op.Path2 != "" {
			segs2, climbs2 := normPath(op.Path2)
			if plain := strings.Join(segs2, "/"); !climbs2 && plain != op.Path2 {
				c := &fsHistIn{Wide: in.Wide, Ops: append([]FsOp(nil), in.Ops...)}
				c.Ops[i].Path2 = plain
				out = append(out, c)
			}
		}
		if op.View != 0 {
			c := &fsHistIn{Wide: in.Wide, Ops: append([]FsOp(nil), in.Ops...)}
			c.Ops[i].View = 0
			out = append(out, c)
		}
		if op.Big > 0 {
			c := &fsHistIn{Wide: in.Wide, Ops: append([]FsOp(nil), in.Ops...)}
			c.Ops[i].Big = 0
			out = append(out, c)
		}
		if len(op.Data) > 4 {
			c := &fsHistIn{Wide: in.Wide, Ops: append([]FsOp(nil), in.Ops...)}
			c.Ops[i].Data = op.Data[:3]
			out = append(out, c)
		}
		if len(op.Chunks) > 0 {
			c := &fsHistIn{Wide: in.Wide, Ops: append([]FsOp(nil), in.Ops...)}
			c.Ops[i].Chunks = nil
			out = append(out, c)
		}
	}
	return out
}

func init() {
	register(&Prop{
		ID:     "C01",
		Level:  "exploration",
		Gen:    c01Gen,
		New:    func() interface{} { return &fsHistIn{} },
		Run:    c01Run,
		Shrink: fsHistShrink,
		Rule: "one case = a history of 1-40 (thorough: up to 200) operations over the 16 Filespace methods plus buffer-mutation pseudo-operations, on the root and on child views (depth<=3), paths from a pool of 3 names x depth<=3 rendered in random spellings (redundant '/', '.', inner '..', leading and trailing '/'); after every step the whole tree (walk through the public interface), 32 queries and every earlier returned slice/listing are compared with the model; " +
			"every history is non-trivial; distinct = distinct operation sequence. No schedule or fault dimension exists for this property: this is the single-task, fault-free configuration of the simulator (seeded history generator, executable model, shrinking, exact replay).",
		Real:        []string{"filesystem/filespace/memfs (Filespace, FilespaceWrapper, Dir, File, FileHandler)", "varutil.CleanPath / ReduceAbsPath"},
		Stub:        []string{"sync primitives -> simrt in solo mode (a blocked lock is reported as a self-deadlock panic)"},
		Assumptions: []string{"unspecified cases accepted either way (clean failure or natural success): remove of the root, recursive remove of a missing node, copy onto an existing destination / into itself / to a destination without parent, child view of a missing directory, paths climbing above the root (judged by C03)"},
	})
}
