package simcheck

import (
	"fmt"
	"strconv"
	"strings"
	"time"

	"github.com/goatcms/goatcore/app"
	"github.com/goatcms/goatcore/app/bootstrap"
	"github.com/goatcms/goatcore/app/gio"
	"github.com/goatcms/goatcore/app/goatapp"
	"github.com/goatcms/goatcore/app/modules/commonm"
	"github.com/goatcms/goatcore/app/modules/ocm"
	"github.com/goatcms/goatcore/app/modules/pipelinem"
	"github.com/goatcms/goatcore/app/modules/commonm/commservices"
	"github.com/goatcms/goatcore/app/modules/pipelinem/pipservices"
	"github.com/goatcms/goatcore/app/modules/pipelinem/pipservices/namespaces"
	"github.com/goatcms/goatcore/app/modules/terminalm"
	"github.com/goatcms/goatcore/app/terminal"
	"github.com/goatcms/goatcore/varutil"
	"github.com/goatcms/goatcore/varutil/idutil"
	"simrt"
)

// simApp is a complete application assembled from real parts inside the simulation:
// goatapp.NewMockupApp on memfs, bootstrap with the terminal, common, container and
// pipeline modules, and probe commands registered in the application's terminal.
type simApp struct {
	mapp   *goatapp.MockupApp
	boot   app.Bootstrap
	events []probeEvent
	seq    int
	spawned int
}

type probeEvent struct {
	Kind string // begin end work fail mark
	ID   string
	Seq  int
	At   time.Duration
}

func (a *simApp) log(kind, id string) {
	a.seq++
	a.events = append(a.events, probeEvent{kind, id, a.seq, simrt.Now()})
}

// newSimApp builds the application; script is what the terminal reads from its input.
func newSimApp(script string, seed int64) *simApp {
	varutil.SimSeed(seed)
	idutil.SimReset()
	sa := &simApp{}
	mapp, err := goatapp.NewMockupApp(goatapp.Params{
		IO:        goatapp.IO{In: gio.NewAppInput(strings.NewReader(script))},
		Arguments: []string{"appname", "terminal"},
	})
	if err != nil {
		panic(harnessTrouble{"NewMockupApp: " + err.Error()})
	}
	boot := bootstrap.NewBootstrap(mapp)
	for _, m := range []app.Module{terminalm.NewModule(), commonm.NewModule(), ocm.NewModule(), pipelinem.NewModule()} {
		if err := boot.Register(m); err != nil {
			panic(harnessTrouble{"bootstrap.Register: " + err.Error()})
		}
	}
	if err := boot.Init(); err != nil {
		panic(harnessTrouble{"bootstrap.Init: " + err.Error()})
	}
	sa.mapp, sa.boot = mapp, boot
	arg := func(ctx app.IOContext) (id string, ms int) {
		var deps struct {
			ID string `command:"?id"`
			MS string `command:"?ms"`
		}
		if err := ctx.Scope().InjectTo(&deps); err != nil {
			panic(harnessTrouble{"probe command arguments: " + err.Error()})
		}
		ms, _ = strconv.Atoi(deps.MS)
		return deps.ID, ms
	}
	mk := func(name string, f func(ctx app.IOContext) error) app.TerminalCommand {
		return terminal.NewCommand(terminal.CommandParams{Name: name, Callback: func(_ app.App, ctx app.IOContext) error { return f(ctx) }})
	}
	mapp.Terminal().SetCommand(
		mk("begin", func(ctx app.IOContext) error { id, _ := arg(ctx); sa.log("begin", id); return nil }),
		mk("end", func(ctx app.IOContext) error { id, _ := arg(ctx); sa.log("end", id); return nil }),
		mk("mark", func(ctx app.IOContext) error { id, _ := arg(ctx); sa.log("mark", id); return nil }),
		mk("work", func(ctx app.IOContext) error {
			id, ms := arg(ctx)
			sa.log("work", id)
			if ms > 0 {
				simrt.Sleep(time.Duration(ms) * time.Millisecond)
			} else {
				simrt.Yield()
			}
			return nil
		}),
		// spawn starts a task through the runner on the command's scope, as pip:run does, and
		// returns at once: the rest of the script runs while the spawned task is still working
		mk("spawn", func(ctx app.IOContext) error {
			id, ms := arg(ctx)
			var deps struct {
				Runner         pipservices.Runner         `dependency:"PipRunner"`
				NamespacesUnit pipservices.NamespacesUnit `dependency:"PipNamespacesUnit"`
			}
			if err := sa.mapp.DependencyProvider().InjectTo(&deps); err != nil {
				panic(harnessTrouble{"inject PipRunner: " + err.Error()})
			}
			// the namespaces of the scope the command runs in, as pip:run takes them: a task
			// spawned from inside another task is a nested one
			ns, err := deps.NamespacesUnit.FromScope(ctx.Scope(), namespaces.NewNamespaces(pipservices.NamasepacesParams{}))
			if err != nil {
				return err
			}
			sa.spawned++
			body := fmt.Sprintf("begin --id=%s\nslowwork --id=%s --ms=%d\nend --id=%s\n", id, id, ms, id)
			var opt struct {
				FailID string `command:"?failid"`
				Lock   string `command:"?lock"`
			}
			_ = ctx.Scope().InjectTo(&opt)
			lockMap := commservices.LockMap{}
			if opt.Lock != "" {
				lockMap[opt.Lock] = commservices.LockRW // a spawned task that asks for a named lock of its own
			}
			err = deps.Runner.Run(pipservices.Pip{
				Context: pipservices.PipContext{
					In: gio.NewInput(strings.NewReader(body)), Out: gio.NewNilOutput(), Err: gio.NewNilOutput(),
					CWD: ctx.IO().CWD(), Scope: ctx.Scope(),
				},
				Name: fmt.Sprintf("spawned%d", sa.spawned), Namespaces: ns, Sandbox: "self",
				Lock: lockMap, Wait: nil,
			})
			if err == nil && opt.FailID != "" {
				// ... and the spawning command then marks its scope as failed (an error appended to
				// the scope, the command itself returns nil) while the spawned task is in the
				// middle of its work
				simrt.Sleep(time.Millisecond)
				sa.log("fail", opt.FailID)
				ctx.Scope().AppendError(fmt.Errorf("probe command spawn --failid=%s", opt.FailID))
			}
			return err
		}),
		// slowwork is work that also reports when it is over: a spawned task that is still in
		// the middle of it when its surroundings fail shows up as a late "worked" event
		mk("slowwork", func(ctx app.IOContext) error {
			id, ms := arg(ctx)
			sa.log("work", id)
			if ms > 0 {
				simrt.Sleep(time.Duration(ms) * time.Millisecond)
			} else {
				simrt.Yield()
			}
			sa.log("worked", id)
			return nil
		}),
		// onerror registers a listener for the scope's error event that takes simulated time:
		// body-side activity that goes on after the scope is already done
		mk("onerror", func(ctx app.IOContext) error {
			id, ms := arg(ctx)
			ctx.Scope().On(app.ErrorEvent, func(interface{}) error {
				if ms > 0 {
					simrt.Sleep(time.Duration(ms) * time.Millisecond)
				}
				sa.log("errlistener", id)
				return nil
			})
			return nil
		}),
		// stopscope ends the command's scope without an error (Stop, not Kill): what follows in
		// the script may be skipped, but nothing failed
		mk("stopscope", func(ctx app.IOContext) error {
			id, _ := arg(ctx)
			sa.log("stopscope", id)
			ctx.Scope().Stop()
			return nil
		}),
		// killscope kills the command's scope (an error: context.Canceled) and returns nil itself
		mk("killscope", func(ctx app.IOContext) error {
			id, _ := arg(ctx)
			sa.log("fail", id) // for the oracles a kill is a failure of the body
			ctx.Scope().Kill()
			return nil
		}),
		mk("fail", func(ctx app.IOContext) error {
			id, _ := arg(ctx)
			sa.log("fail", id)
			return fmt.Errorf("probe command fail --id=%s", id)
		}),
	)
	return sa
}

// tasksManager returns the pipeline task manager bound to the application scope.
func (a *simApp) tasksManager() pipservices.TasksManager {
	var deps struct {
		TasksUnit pipservices.TasksUnit `dependency:"PipTasksUnit"`
	}
	if err := a.mapp.DependencyProvider().InjectTo(&deps); err != nil {
		panic(harnessTrouble{"inject PipTasksUnit: " + err.Error()})
	}
	m, err := deps.TasksUnit.FromScope(a.mapp.Scopes().App())
	if err != nil {
		panic(harnessTrouble{"TasksUnit.FromScope: " + err.Error()})
	}
	return m
}

func (a *simApp) eventsOf(id string) []probeEvent {
	var out []probeEvent
	for _, e := range a.events {
		if e.ID == id {
			out = append(out, e)
		}
	}
	return out
}
