package simcheck

import (
	"fmt"
	"strings"

	"github.com/goatcms/goatcore/app"
	"github.com/goatcms/goatcore/app/gio"
	"github.com/goatcms/goatcore/app/modules/terminalm/termservices"
	"github.com/goatcms/goatcore/app/scope"
	"github.com/goatcms/goatcore/app/scope/contextscope"
)

// C16 — pip:try runs exactly the matching handler and contains the body's failure.
//
// The C14 application; pip:try is issued through the real terminal service with a
// generated body (succeeds / fails at command k / spawns nested tasks that succeed or fail
// after a simulated delay), any subset of success / fail / finally handlers, handlers that
// themselves fail.

type c16In struct {
	Steps     int   `json:"steps"`
	WorkMS    []int `json:"work_ms,omitempty"`
	FailAt    int   `json:"fail_at"` // -1 never
	Nested    []int `json:"nested,omitempty"`     // positions (0..steps) at which a nested task is spawned
	NestFail  []bool `json:"nest_fail,omitempty"` // whether that nested task fails
	NestMS    []int `json:"nest_ms,omitempty"`
	Success   int   `json:"success"` // 0 absent, 1 present, 2 present and failing at once, 3 present and failing after 5 simulated ms
	Fail      int   `json:"fail"`
	Finally   int   `json:"finally"`
	ErrListenerMS int `json:"err_listener_ms,omitempty"` // >0: the body registers an error listener that takes this long
	SpawnLock bool  `json:"spawn_lock,omitempty"` // spawned tasks ask for a named lock
	SpawnFail bool  `json:"spawn_fail,omitempty"` // the last spawning command fails itself right after spawning
	Spawn     bool  `json:"spawn,omitempty"` // nested tasks are started without waiting for them (the body goes on while they work)
	KillBody  bool  `json:"kill_body,omitempty"` // the failing command of the body kills its scope instead of returning an error
	StopAt    int   `json:"stop_at,omitempty"` // >0: the body stops its own scope (no error) before step stop_at-1
	Second    bool  `json:"second,omitempty"` // a second try block (succeeding body, success + finally handlers) follows in the same scope
}

func c16Gen(r *Rand, tier string) interface{} {
	in := &c16In{Steps: r.Intn(3), FailAt: -1}
	for k := 0; k < in.Steps; k++ {
		in.WorkMS = append(in.WorkMS, r.Pick(0, 1, 10))
	}
	if r.Chance(1, 3) {
		in.FailAt = r.Intn(in.Steps + 1)
	}
	for k, n := 0, r.Intn(3); k < n; k++ {
		in.Nested = append(in.Nested, r.Intn(in.Steps+1))
		in.NestFail = append(in.NestFail, r.Chance(1, 3))
		in.NestMS = append(in.NestMS, r.Pick(0, 2, 20))
	}
	if r.Chance(1, 3) {
		in.ErrListenerMS = r.Pick(1, 5, 50)
	}
	h := func() int { return []int{0, 1, 1, 1, 2, 3}[r.Intn(6)] }
	in.Success, in.Fail, in.Finally = h(), h(), h()
	in.Second = r.Chance(1, 4)
	if in.FailAt < 0 && r.Chance(1, 6) {
		in.StopAt = 1 + r.Intn(in.Steps+1)
	}
	if in.FailAt >= 0 && r.Chance(1, 4) {
		in.KillBody = true
	}
	in.Spawn = len(in.Nested) > 0 && r.Bool()
	in.SpawnFail = in.Spawn && r.Chance(1, 3)
	in.SpawnLock = in.Spawn && r.Bool()
	return in
}

func (in *c16In) body() string {
	var sb strings.Builder
	sb.WriteString("begin --id=b\n")
	if in.ErrListenerMS > 0 {
		fmt.Fprintf(&sb, "onerror --id=b --ms=%d\n", in.ErrListenerMS)
	}
	for k := 0; k <= in.Steps; k++ {
		if k == in.FailAt {
			if in.KillBody {
				sb.WriteString("killscope --id=b\n")
			} else {
				sb.WriteString("fail --id=b\n")
			}
		}
		if k+1 == in.StopAt {
			sb.WriteString("stopscope --id=b\n")
		}
		for j, pos := range in.Nested {
			if pos == k && in.Spawn && !in.NestFail[j] {
				lock := ""
				if in.SpawnLock {
					lock = fmt.Sprintf(" --lock=sl%d", j)
				}
				if in.SpawnFail && j == len(in.Nested)-1 {
					// the command that spawned the task fails at once: the body is over while the task works
					fmt.Fprintf(&sb, "spawn --id=b.n%d --ms=%d%s --failid=b\n", j, in.NestMS[j], lock)
					continue
				}
				fmt.Fprintf(&sb, "spawn --id=b.n%d --ms=%d%s\n", j, in.NestMS[j], lock)
				continue
			}
			if pos == k {
				fmt.Fprintf(&sb, "pip:run --name=n%d --silent=true --body=<<EOB\nbegin --id=b.n%d\nslowwork --id=b.n%d --ms=%d\n", j, j, j, in.NestMS[j])
				if in.NestFail[j] {
					fmt.Fprintf(&sb, "fail --id=b.n%d\n", j)
				}
				fmt.Fprintf(&sb, "end --id=b.n%d\nEOB\n", j)
			}
		}
		if k < in.Steps {
			fmt.Fprintf(&sb, "work --id=b --ms=%d\n", in.WorkMS[k])
		}
	}
	sb.WriteString("end --id=b\n")
	return sb.String()
}

func handlerBody(name string, mode int) string {
	if mode == 2 {
		return fmt.Sprintf("mark --id=h.%s\nfail --id=h.%s\n", name, name)
	}
	if mode == 3 {
		return fmt.Sprintf("mark --id=h.%s\nwork --id=h.%s --ms=5\nfail --id=h.%s\n", name, name, name)
	}
	return fmt.Sprintf("mark --id=h.%s\n", name)
}

func c16Run(inI interface{}, env *Env) *Failure {
	in := inI.(*c16In)
	var (
		sa       *simApp
		runErr   error
		outerErr []error
		done     bool
		secondRan   bool
		secondErr   error
		secondOuter []error
	)
	res := env.Sim(SimOpts{MaxSteps: 400000, FairSteps: 100000}, func() {
		sa = newSimApp("", 1)
		var deps struct {
			Terminal termservices.Terminal `dependency:"TerminalService"`
		}
		if err := sa.mapp.DependencyProvider().InjectTo(&deps); err != nil {
			panic(harnessTrouble{"inject TerminalService: " + err.Error()})
		}
		appScope := sa.mapp.Scopes().App()
		// the surrounding scope: a session scope with its own context, so that what pip:try
		// leaves in it can be read without the application scope being involved
		outer := scope.NewChild(appScope, scope.ChildParams{Name: "session", ContextScope: contextscope.NewIsolated(appScope.BaseContextScope())})
		ioctx := gio.NewIOContext(outer, gio.NewIO(gio.IOParams{
			In: gio.NewInput(strings.NewReader("")), Out: gio.NewNilOutput(), Err: gio.NewNilOutput(), CWD: sa.mapp.Filespaces().CWD(),
		}))
		args := []string{"pip:try", "--name=tr", "--silent=true", "--body=" + in.body()}
		if in.Success > 0 {
			args = append(args, "--success="+handlerBody("success", in.Success))
		}
		if in.Fail > 0 {
			args = append(args, "--fail="+handlerBody("fail", in.Fail))
		}
		if in.Finally > 0 {
			args = append(args, "--finally="+handlerBody("finally", in.Finally))
		}
		runErr = deps.Terminal.RunCommand(ioctx, args)
		_ = outer.Wait()
		outerErr = append([]error(nil), outer.Errors()...)
		if in.Second && len(outerErr) == 0 && runErr == nil {
			// the surrounding scope is intact: a second try block in it behaves like the first
			secondRan = true
			secondErr = deps.Terminal.RunCommand(ioctx, []string{"pip:try", "--name=tr2", "--silent=true",
				"--body=begin --id=c\nend --id=c\n", "--success=mark --id=g.success\n", "--fail=mark --id=g.fail\n", "--finally=mark --id=g.finally\n"})
			_ = outer.Wait()
			secondOuter = append([]error(nil), outer.Errors()...)
		}
		done = true
		func() {
			defer func() { recover() }()
			_ = outer.Close()
		}()
	})
	if res.Decisions > 0 {
		env.Count("nontrivial")
	}
	if f := env.SimFailure("C16", res); f != nil {
		return f
	}
	if !done {
		return failf("C16/never-finished", "", "pip:try did not finish: %v", res.Blocked)
	}
	if len(res.Races) > 0 {
		rc := res.Races[0]
		return failf("C16/map-race", fmt.Sprintf("%s|%s", siteName(rc.Site1), siteName(rc.Site2)), "unsynchronised %s access to %s: %s vs %s", rc.Kind, rc.MapLabel, siteName(rc.Site1), siteName(rc.Site2))
	}
	if debugOps {
		fmt.Printf("DEBUG C16 events: %v\nDEBUG C16 outer errors: %v, RunCommand: %v\n", sa.events, outerErr, runErr)
	}
	// did the body end with an error? (its failing command was executed, or a nested task failed)
	bodyFailed := false
	lastBody := 0
	for _, e := range sa.events {
		if strings.HasPrefix(e.ID, "b") {
			if e.Kind == "fail" {
				bodyFailed = true
			}
			if e.Seq > lastBody {
				lastBody = e.Seq
			}
		}
	}
	ran := func(name string) (bool, int) {
		evs := sa.eventsOf("h." + name)
		if len(evs) == 0 {
			return false, 0
		}
		return true, evs[0].Seq
	}
	key := fmt.Sprintf("body-failed=%v", bodyFailed)
	check := func(name string, present int, want bool) *Failure {
		got, first := ran(name)
		if present == 0 {
			if got {
				return failf("C16/undefined-handler-ran", name, "handler %s is not defined but ran", name)
			}
			return nil
		}
		if got != want {
			if want && !got {
				// did another handler fail? (handlers are submitted as concurrent tasks of the
				// surrounding scope: a failing one cancels or pre-empts the others)
				for _, e := range sa.events {
					if strings.HasPrefix(e.ID, "h.") && e.ID != "h."+name && e.Kind == "fail" {
						// The known defect: handlers are concurrent tasks of one scope, one that fails
						// *at once* ends the scope before a sibling got going. A sibling that failed only
						// after simulated time had passed cannot explain it: all handlers are submitted
						// back to back, and simulated time only advances when nothing can run.
						if started := sa.eventsOf(e.ID); len(started) > 0 && e.At > started[0].At {
							return failf("C16/wrong-handler", "never-started-while-a-sibling-was-still-running", "body failed=%v: handler %s never ran although handler %s was still working for %v before it failed (events %v)", bodyFailed, name, strings.TrimPrefix(e.ID, "h."), e.At-started[0].At, sa.events)
						}
						k := "skipped-after-failing-handler"
						if env.Known("C16/wrong-handler", k, "a handler that must run (here "+name+") is skipped or cancelled when another handler of the same try block fails") {
							return nil
						}
						return failf("C16/wrong-handler", k, "body failed=%v: handler %s did not run because handler %s failed (events %v)", bodyFailed, name, strings.TrimPrefix(e.ID, "h."), sa.events)
					}
				}
			}
			return failf("C16/wrong-handler", name+"/"+key, "body failed=%v: handler %s ran=%v, expected %v (events %v)", bodyFailed, name, got, want, sa.events)
		}
		if got && first < lastBody {
			return failf("C16/handler-before-body-finished", name, "handler %s started (event %d) before the body and the tasks it spawned had finished (last body event %d)", name, first, lastBody)
		}
		return nil
	}
	if f := check("success", in.Success, !bodyFailed); f != nil {
		return f
	}
	if f := check("fail", in.Fail, bodyFailed); f != nil {
		return f
	}
	if f := check("finally", in.Finally, true); f != nil {
		return f
	}
	// containment: the surrounding scope fails iff a handler that ran failed
	handlerFailed := false
	for _, e := range sa.events {
		if strings.HasPrefix(e.ID, "h.") && e.Kind == "fail" {
			handlerFailed = true
		}
	}
	if secondRan {
		env.Count("probe.second-try-block-in-the-same-scope")
		s, fl, fin := len(sa.eventsOf("g.success")), len(sa.eventsOf("g.fail")), len(sa.eventsOf("g.finally"))
		if s != 1 || fl != 0 || fin != 1 || secondErr != nil || len(secondOuter) != 0 {
			return failf("C16/wrong-handler", "second-try-block", "a second try block in the same (intact) scope with a succeeding body: success ran %d times, fail %d, finally %d (expected 1, 0, 1); RunCommand returned %v, the scope holds %v", s, fl, fin, secondErr, secondOuter)
		}
	}
	if handlerFailed && len(outerErr) == 0 {
		return failf("C16/handler-failure-lost", key, "a handler failed but the surrounding scope holds no error (RunCommand returned %v)", runErr)
	}
	if !handlerFailed && len(outerErr) > 0 {
		return failf("C16/body-failure-leaked", key, "no handler failed (body failed=%v) but the surrounding scope holds errors: %v", bodyFailed, outerErr)
	}
	return nil
}

func c16Shrink(inI interface{}) []interface{} {
	in := inI.(*c16In)
	var out []interface{}
	cp := func() *c16In {
		c := *in
		c.WorkMS = append([]int(nil), in.WorkMS...)
		c.Nested = append([]int(nil), in.Nested...)
		c.NestFail = append([]bool(nil), in.NestFail...)
		c.NestMS = append([]int(nil), in.NestMS...)
		return &c
	}
	for j := range in.Nested {
		c := cp()
		c.Nested = append(c.Nested[:j], c.Nested[j+1:]...)
		c.NestFail = append(c.NestFail[:j], c.NestFail[j+1:]...)
		c.NestMS = append(c.NestMS[:j], c.NestMS[j+1:]...)
		out = append(out, c)
	}
	if in.ErrListenerMS > 0 {
		c := cp()
		c.ErrListenerMS = 0
		out = append(out, c)
	}
	if in.Steps > 0 {
		c := cp()
		c.Steps, c.WorkMS = 0, nil
		if c.FailAt > 0 {
			c.FailAt = 0
		}
		for j := range c.Nested {
			c.Nested[j] = 0
		}
		out = append(out, c)
	}
	for _, f := range []*int{&in.Success, &in.Fail, &in.Finally} {
		if *f > 0 {
			old := *f
			*f = 0
			out = append(out, cp())
			*f = old
		}
	}
	return out
}

var _ app.Scope

func init() {
	register(&Prop{
		ID:     "C16",
		Level:  "exploration",
		Gen:    c16Gen,
		New:    func() interface{} { return &c16In{} },
		Run:    c16Run,
		Shrink: c16Shrink,
		Rule: "one case = a try block (body of 0-2 work commands, optional failing command at a chosen position, up to 2 nested pip:run tasks that succeed or fail after a simulated delay; each of success / fail / finally absent, present, or present and failing) issued through the real terminal service in the whole application x one seeded schedule; " +
			"non-trivial = a scheduling decision with more than one runnable task; distinct = distinct (input, decision sequence)",
		Real:        []string{"pipc.Try, pipc.Run", "pipservices/runner, tasks, namespaces, sandboxes/selfsb", "terminal/termexec", "app/scope, contextscope", "whole application assembly (goatapp, bootstrap, modules)"},
		Stub:        []string{"probe commands", "sync primitives, scheduler, clock (simrt)"},
		Assumptions: []string{"the body 'finished with an error' when its failing command was executed or a nested task executed a failing command", "the order among handlers is not judged (the implementation runs finally first)"},
	})
}
