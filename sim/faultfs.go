package simcheck

import (
	"fmt"
	"io"
	"os"
	"time"

	"github.com/goatcms/goatcore/filesystem"
	"simrt"
)

// FaultFS wraps any filesystem.Filespace (and the readers, writers and child views it
// hands out) and injects I/O faults through the interfaces goatcore already uses.
//
// Every faultable call - a method that can return an error, and every Read, Write and
// Close of a stream - takes the next position number.  A plan names positions at which a
// fault fires and its kind.  A dry run without faults yields the number of positions, so
// that a check can then enumerate every position.
type FaultFS struct {
	inner filesystem.Filespace
	st    *FaultState
}

// Fault kinds.
const (
	FaultOpError    = "op-error"    // a filespace method fails without doing anything
	FaultReadError  = "read-error"  // a stream Read fails
	FaultWriteError = "write-error" // a stream Write fails having accepted nothing
	FaultTornWrite  = "torn-write"  // a stream Write stores a prefix, then fails
	FaultCloseError = "close-error" // Close reports an error (after closing the inner stream)
)

// ErrInjected is the error every injected fault returns.
type ErrInjected struct {
	Pos  int
	Kind string
	Op   string
}

func (e *ErrInjected) Error() string {
	return fmt.Sprintf("injected %s at position %d (%s)", e.Kind, e.Pos, e.Op)
}

// FaultState is shared by a FaultFS, its child views and its streams.
type FaultState struct {
	Pos       int            // next position
	FailAt    map[int]string // position -> kind ("" = natural kind of the call, "torn" for torn write)
	Fired     []*ErrInjected
	Trace     []string // position -> "op path"
	KeepTrace bool
	ShortRead func() int                     // when set: maximum bytes a Read may return (>=1)
	Latency   func(op string) time.Duration // when set: simulated delay before a call
	Calls     map[string]int
	OnFire    func(kind string)
}

func NewFaultFS(inner filesystem.Filespace, st *FaultState) *FaultFS {
	if st.Calls == nil {
		st.Calls = map[string]int{}
	}
	return &FaultFS{inner: inner, st: st}
}

// before accounts for one faultable call and returns the injected error, if any.
func (st *FaultState) before(op, path, natural string) *ErrInjected {
	st.Calls[op]++
	if st.Latency != nil {
		if d := st.Latency(op); d > 0 {
			simrt.Sleep(d)
		}
	}
	pos := st.Pos
	st.Pos++
	if debugOps {
		fmt.Printf("DEBUG   remote %d: %s %s\n", st.Pos, op, path)
	}
	if st.KeepTrace {
		st.Trace = append(st.Trace, op+" "+path)
	}
	kind, ok := st.FailAt[pos]
	if !ok {
		return nil
	}
	if kind == "" || (kind == "torn" && natural != FaultWriteError) {
		kind = natural
	} else if kind == "torn" {
		kind = FaultTornWrite
	}
	e := &ErrInjected{Pos: pos, Kind: kind, Op: op + " " + path}
	st.Fired = append(st.Fired, e)
	if st.OnFire != nil {
		st.OnFire(kind)
	}
	return e
}

func (f *FaultFS) Copy(src, dest string) error {
	if e := f.st.before("Copy", src+"->"+dest, FaultOpError); e != nil {
		return e
	}
	return f.inner.Copy(src, dest)
}

func (f *FaultFS) CopyDirectory(src, dest string) error {
	if e := f.st.before("CopyDirectory", src+"->"+dest, FaultOpError); e != nil {
		return e
	}
	return f.inner.CopyDirectory(src, dest)
}

func (f *FaultFS) CopyFile(src, dest string) error {
	if e := f.st.before("CopyFile", src+"->"+dest, FaultOpError); e != nil {
		return e
	}
	return f.inner.CopyFile(src, dest)
}

func (f *FaultFS) ReadDir(path string) ([]os.FileInfo, error) {
	if e := f.st.before("ReadDir", path, FaultOpError); e != nil {
		return nil, e
	}
	return f.inner.ReadDir(path)
}

// boolean queries cannot report failure; they are never faulted, only delayed.
func (f *FaultFS) IsExist(p string) bool {
	f.st.Calls["IsExist"]++
	return f.inner.IsExist(p)
}
func (f *FaultFS) IsFile(p string) bool {
	f.st.Calls["IsFile"]++
	return f.inner.IsFile(p)
}
func (f *FaultFS) IsDir(p string) bool {
	f.st.Calls["IsDir"]++
	return f.inner.IsDir(p)
}

func (f *FaultFS) MkdirAll(p string, m os.FileMode) error {
	if e := f.st.before("MkdirAll", p, FaultOpError); e != nil {
		return e
	}
	return f.inner.MkdirAll(p, m)
}

func (f *FaultFS) ReadFile(p string) ([]byte, error) {
	if e := f.st.before("ReadFile", p, FaultOpError); e != nil {
		return nil, e
	}
	return f.inner.ReadFile(p)
}

func (f *FaultFS) WriteFile(p string, data []byte, perm os.FileMode) error {
	if e := f.st.before("WriteFile", p, FaultOpError); e != nil {
		return e
	}
	return f.inner.WriteFile(p, data, perm)
}

func (f *FaultFS) Filespace(p string) (filesystem.Filespace, error) {
	if e := f.st.before("Filespace", p, FaultOpError); e != nil {
		return nil, e
	}
	in, err := f.inner.Filespace(p)
	if err != nil {
		return nil, err
	}
	return &FaultFS{inner: in, st: f.st}, nil
}

func (f *FaultFS) Reader(p string) (filesystem.Reader, error) {
	if e := f.st.before("Reader", p, FaultOpError); e != nil {
		return nil, e
	}
	r, err := f.inner.Reader(p)
	if err != nil {
		return nil, err
	}
	return &faultReader{r: r, st: f.st, path: p}, nil
}

func (f *FaultFS) Writer(p string) (filesystem.Writer, error) {
	if e := f.st.before("Writer", p, FaultOpError); e != nil {
		return nil, e
	}
	w, err := f.inner.Writer(p)
	if err != nil {
		return nil, err
	}
	return &faultWriter{w: w, st: f.st, path: p}, nil
}

func (f *FaultFS) Remove(p string) error {
	if e := f.st.before("Remove", p, FaultOpError); e != nil {
		return e
	}
	return f.inner.Remove(p)
}

func (f *FaultFS) RemoveAll(p string) error {
	if e := f.st.before("RemoveAll", p, FaultOpError); e != nil {
		return e
	}
	return f.inner.RemoveAll(p)
}

func (f *FaultFS) Lstat(p string) (os.FileInfo, error) {
	if e := f.st.before("Lstat", p, FaultOpError); e != nil {
		return nil, e
	}
	return f.inner.Lstat(p)
}

type faultReader struct {
	r    filesystem.Reader
	st   *FaultState
	path string
}

func (r *faultReader) Read(p []byte) (int, error) {
	if e := r.st.before("Read", r.path, FaultReadError); e != nil {
		return 0, e
	}
	if r.st.ShortRead != nil && len(p) > 1 {
		if k := r.st.ShortRead(); k >= 1 && k < len(p) {
			p = p[:k]
		}
	}
	return r.r.Read(p)
}

func (r *faultReader) Close() error {
	if e := r.st.before("CloseReader", r.path, FaultCloseError); e != nil {
		_ = r.r.Close()
		return e
	}
	return r.r.Close()
}

type faultWriter struct {
	w    filesystem.Writer
	st   *FaultState
	path string
}

func (w *faultWriter) Write(p []byte) (int, error) {
	if e := w.st.before("Write", w.path, FaultWriteError); e != nil {
		if e.Kind == FaultTornWrite && len(p) > 0 {
			n, _ := w.w.Write(p[:len(p)/2])
			return n, e
		}
		return 0, e
	}
	return w.w.Write(p)
}

func (w *faultWriter) Close() error {
	if e := w.st.before("CloseWriter", w.path, FaultCloseError); e != nil {
		_ = w.w.Close()
		return e
	}
	return w.w.Close()
}

var _ filesystem.Filespace = (*FaultFS)(nil)
var _ io.ReadCloser = (*faultReader)(nil)
