package simcheck

import (
	"fmt"
	"strings"
	"sort"
	"time"

	"github.com/goatcms/goatcore/app/modules/commonm/commservices"
	"github.com/goatcms/goatcore/app/modules/commonm/commservices/mutex"
	"simrt"
)

// C15 — named resource locks: writers exclude everyone, readers share, no deadlock.
//
// Shape 0: 2-6 holders with random lock maps over a pool of 4 names take the shared mutex,
// stay inside for a simulated time, leave; 1-2 rounds each.  Interval exclusion is checked
// at every entry.  Shape 1 (independence probe): holder A stays inside on a gate that only
// holder B opens from inside its own critical section; B's map is compatible with A's
// (disjoint, or overlapping only where both read), so B must get in while A is inside.

type c15Holder struct {
	Map    map[string]bool `json:"map"` // name -> true: read+write, false: read only
	HoldMS []int           `json:"hold_ms"`
}

type c15In struct {
	Shape   int         `json:"shape"`
	Holders []c15Holder `json:"holders"`
	Pip     *c14In      `json:"pip,omitempty"` // shape 3: holders are pipeline tasks whose lock maps come from the pip:run command line
}

var c15Names = []string{"db", "dbx", "net", "x", "DB"} // "dbx" extends "db", "DB" differs by case: names must be matched exactly

func c15Map(r *Rand) map[string]bool {
	m := map[string]bool{}
	switch r.Intn(8) {
	case 0: // empty map
	case 1: // every resource
		for _, n := range c15Names {
			m[n] = r.Bool()
		}
	default:
		for _, n := range c15Names {
			if r.Chance(2, 5) {
				m[n] = r.Bool()
			}
		}
	}
	return m
}

func c15Gen(r *Rand, tier string) interface{} {
	in := &c15In{}
	if r.Chance(1, 5) {
		in.Shape = 1
		a := c15Map(r)
		b := map[string]bool{}
		for _, n := range c15Names {
			w, inA := a[n]
			switch {
			case !inA && r.Chance(1, 2):
				b[n] = r.Bool()
			case inA && !w && r.Chance(1, 2):
				b[n] = false // both read
			}
		}
		in.Holders = []c15Holder{{Map: a}, {Map: b}}
		return in
	}
	if r.Chance(1, 12) {
		// the pipeline shape: 2-3 tasks submitted through the runner, each starting a nested
		// task with --wlock / --rlock flags on one shared name; the whole application runs
		in.Shape = 3
		p := &c14In{Submitters: 1 + r.Intn(2), Isolated: true}
		for i, n := 0, 2+r.Intn(2); i < n; i++ {
			t := c14Task{Name: fmt.Sprintf("t%d", i), FailAt: -1, GapMS: r.Pick(0, 0, 1), By: r.Intn(p.Submitters),
				Nested: true, NestLock: r.Pick(1, 2, 3, 3)}
			if r.Chance(1, 2) {
				// a lock map handed to the runner, and sometimes a body that fails while holding it:
				// whoever comes next for that resource still gets its turn
				t.Nested, t.NestLock = false, 0
				if r.Bool() {
					t.WLock = []string{"db"}
				} else {
					t.RLock = []string{"db"}
				}
				t.Steps = r.Intn(2)
				for k := 0; k < t.Steps; k++ {
					t.WorkMS = append(t.WorkMS, r.Pick(0, 1, 5))
				}
				if r.Chance(1, 2) {
					t.FailAt = r.Intn(t.Steps + 1)
				}
			}
			p.Tasks = append(p.Tasks, t)
		}
		in.Pip = p
		return in
	}
	if r.Chance(1, 6) {
		// three parties: A inside (parked), C queues behind A on a shared name with a map of
		// several entries, B is disjoint from both (also several entries) and must still get in
		in.Shape = 2
		a := map[string]bool{"db": true}
		c := map[string]bool{"db": r.Bool(), "dbx": r.Bool()}
		if !c["db"] {
			a["db"] = true // A writes db, so C (reading or writing db) must wait
		}
		b := map[string]bool{"net": r.Bool(), "x": r.Bool()}
		in.Holders = []c15Holder{{Map: a}, {Map: b}, {Map: c}}
		return in
	}
	n := 2 + r.Intn(3)
	if tier == "thorough" {
		n = 2 + r.Intn(5)
	}
	for i := 0; i < n; i++ {
		h := c15Holder{Map: c15Map(r)}
		for k, rounds := 0, 1+r.Intn(2); k < rounds; k++ {
			h.HoldMS = append(h.HoldMS, r.Pick(0, 0, 1, 5, 20))
		}
		in.Holders = append(in.Holders, h)
	}
	return in
}

func c15Key(m map[string]bool) string {
	ks := []string{}
	for k, w := range m {
		if w {
			ks = append(ks, k+":rw")
		} else {
			ks = append(ks, k+":r")
		}
	}
	sort.Strings(ks)
	return fmt.Sprint(ks)
}

func c15Run(inI interface{}, env *Env) *Failure {
	in := inI.(*c15In)
	if in.Shape == 3 {
		env.Count("probe.pipeline-shape-runs")
		f := c14Run(in.Pip, env)
		if f != nil && f.Clause != "" {
			f.Clause = strings.Replace(f.Clause, "C14/", "C15/pipeline-", 1)
		}
		return f
	}
	var post *Failure
	readers := map[string]int{}
	writers := map[string]int{}
	overlaps := 0
	enter := func(i int, m map[string]bool) {
		for name, w := range m {
			if w {
				if writers[name] > 0 || readers[name] > 0 {
					if post == nil {
						post = failf("C15/exclusion", "writer-enters", "holder %d entered with write access to %q while %d writers and %d readers hold it", i, name, writers[name], readers[name])
					}
				}
				writers[name]++
			} else {
				if writers[name] > 0 {
					if post == nil {
						post = failf("C15/exclusion", "reader-enters", "holder %d entered with read access to %q while a writer holds it", i, name)
					}
				}
				if readers[name] > 0 {
					overlaps++
				}
				readers[name]++
			}
		}
	}
	leave := func(m map[string]bool) {
		for name, w := range m {
			if w {
				writers[name]--
			} else {
				readers[name]--
			}
		}
	}
	res := env.Sim(SimOpts{MaxSteps: 30000, FairSteps: 30000}, func() {
		sm := mutex.NewSharedMutex()
		var wg simrt.WaitGroup
		if in.Shape == 1 {
			a, b := in.Holders[0], in.Holders[1]
			var gate, aInside simrt.WaitGroup
			gate.Add(1)
			aInside.Add(1)
			wg.Add(2)
			simrt.GoNamed("holderA", func() {
				defer wg.Done()
				h := sm.Lock(commservices.LockMap(a.Map))
				enter(0, a.Map)
				aInside.Done()
				gate.Wait() // only B, from inside its own section, opens the gate
				leave(a.Map)
				h.Unlock()
			})
			simrt.GoNamed("holderB", func() {
				defer wg.Done()
				aInside.Wait()
				h := sm.Lock(commservices.LockMap(b.Map))
				enter(1, b.Map)
				gate.Done()
				leave(b.Map)
				h.Unlock()
			})
			wg.Wait()
			return
		}
		if in.Shape == 2 {
			a, b, c := in.Holders[0], in.Holders[1], in.Holders[2]
			var gate, aInside, cStarted simrt.WaitGroup
			gate.Add(1)
			aInside.Add(1)
			cStarted.Add(1)
			wg.Add(3)
			simrt.GoNamed("holderA", func() {
				defer wg.Done()
				h := sm.Lock(commservices.LockMap(a.Map))
				enter(0, a.Map)
				aInside.Done()
				gate.Wait()
				leave(a.Map)
				h.Unlock()
			})
			simrt.GoNamed("holderC", func() {
				defer wg.Done()
				aInside.Wait()
				cStarted.Done()
				h := sm.Lock(commservices.LockMap(c.Map)) // queues behind A
				enter(2, c.Map)
				leave(c.Map)
				h.Unlock()
			})
			simrt.GoNamed("holderB", func() {
				defer wg.Done()
				cStarted.Wait()
				simrt.WaitQuiescent() // C has gone as far as it can: it waits for A's resource
				h := sm.Lock(commservices.LockMap(b.Map))
				enter(1, b.Map)
				gate.Done() // only B, from inside its section, lets A go
				leave(b.Map)
				h.Unlock()
			})
			wg.Wait()
			return
		}
		wg.Add(len(in.Holders))
		for i, hd := range in.Holders {
			i, hd := i, hd
			simrt.GoNamed(fmt.Sprintf("holder%d", i), func() {
				defer wg.Done()
				for _, ms := range hd.HoldMS {
					h := sm.Lock(commservices.LockMap(hd.Map))
					enter(i, hd.Map)
					if ms > 0 {
						simrt.Sleep(time.Duration(ms) * time.Millisecond)
					} else {
						simrt.Yield()
					}
					leave(hd.Map)
					h.Unlock()
				}
			})
		}
		wg.Wait()
	})
	if res.Decisions > 0 {
		env.Count("nontrivial")
	}
	if overlaps > 0 {
		env.CountN("probe.readers-inside-together", overlaps)
	}
	if in.Shape == 2 {
		env.Count("probe.three-party-independence-probe-runs")
		if res.Deadlock && !res.MainDone {
			return failf("C15/independence", "three-party:"+c15Key(in.Holders[1].Map),
				"a holder whose lock map is disjoint from every other holder's could not enter while one holder was inside and another was queued behind it: %v", res.Blocked)
		}
	}
	if in.Shape == 1 {
		env.Count("probe.independence-probe-runs")
		if res.Deadlock && !res.MainDone {
			return failf("C15/independence", c15Key(in.Holders[0].Map)+" vs "+c15Key(in.Holders[1].Map),
				"a holder with a compatible lock map (disjoint or read-only overlap) could not enter while another holder was inside: %v", res.Blocked)
		}
	}
	if f := env.SimFailure("C15", res); f != nil {
		return f
	}
	return post
}

func c15Shrink(inI interface{}) []interface{} {
	in := inI.(*c15In)
	var out []interface{}
	if in.Shape == 3 {
		return out
	}
	cp := func() *c15In {
		c := &c15In{Shape: in.Shape}
		for _, h := range in.Holders {
			m := map[string]bool{}
			for k, v := range h.Map {
				m[k] = v
			}
			c.Holders = append(c.Holders, c15Holder{Map: m, HoldMS: append([]int(nil), h.HoldMS...)})
		}
		return c
	}
	if in.Shape == 0 {
		for i := range in.Holders {
			if len(in.Holders) > 2 {
				c := cp()
				c.Holders = append(c.Holders[:i], c.Holders[i+1:]...)
				out = append(out, c)
			}
			if len(in.Holders[i].HoldMS) > 1 {
				c := cp()
				c.Holders[i].HoldMS = c.Holders[i].HoldMS[:1]
				out = append(out, c)
			}
		}
	}
	if in.Shape == 2 {
		return out // the probe's maps are constructed, not shrunk
	}
	for i := range in.Holders {
		names := []string{}
		for k := range in.Holders[i].Map {
			names = append(names, k)
		}
		sort.Strings(names)
		for _, k := range names {
			c := cp()
			delete(c.Holders[i].Map, k)
			out = append(out, c)
		}
	}
	return out
}

func init() {
	register(&Prop{
		ID:     "C15",
		Level:  "exploration",
		Gen:    c15Gen,
		New:    func() interface{} { return &c15In{} },
		Run:    c15Run,
		Shrink: c15Shrink,
		Rule: "one case = (2-6 holders, lock maps over 5 resource names (one a prefix of another, two differing by case) incl. empty and full, hold times) x one seeded schedule, or one independence probe (A parked inside, compatible B must enter; three-party variant), or the pipeline shape (2-3 runner tasks whose nested pip:run tasks name one resource with --wlock / --rlock / both: writers never overlap); " +
			"the order in which the shared mutex walks a lock map is itself a seeded choice; non-trivial = a scheduling decision with more than one runnable task; distinct = distinct (input, decision sequence)",
		Real: []string{"app/modules/commonm/commservices/mutex (SharedMutex, unlock handler)", "pipeline shape: the whole application of C14 (pip:run command line -> lock map -> runner -> SharedMutex)"},
		Stub: []string{"sync.RWMutex -> simrt.RWMutex (writer preference as in Go)", "scheduler, clock", "holders (probe tasks)"},
		Assumptions: []string{
			"the pipeline-task shape of the design (lock maps attached to pip:run tasks) is exercised by C14's whole-application harness, not here",
		},
	})
}
