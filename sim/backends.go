package simcheck

import (
	"os"
	"strings"

	"github.com/goatcms/goatcore/filesystem"
	"github.com/goatcms/goatcore/filesystem/filespace/diskfs"
	"github.com/goatcms/goatcore/filesystem/filespace/encryptfs"
	"github.com/goatcms/goatcore/filesystem/filespace/encryptfs/cipherfs"
	"github.com/goatcms/goatcore/filesystem/filespace/encryptfs/cipherfs/aesgcm256cfs"
	"github.com/goatcms/goatcore/filesystem/filespace/encryptfs/cipherfs/extcfs"
	"github.com/goatcms/goatcore/filesystem/filespace/memfs"
	"github.com/goatcms/goatcore/filesystem/fscache"
)

// backendKinds are the filespace stacks the copy / stream properties quantify over.
var backendKinds = []string{"mem", "disk", "enc-aes-mem", "enc-ext-mem", "enc-aes-disk", "enc-ext-disk", "cache-mem"}

// backend is one filespace stack: fs is what the code under test gets (possibly behind a
// FaultFS), clean is a fault-free view of the same stored state used by the oracle, raw is
// the undecorated base (what is physically stored).
type backend struct {
	kind    string
	fs      filesystem.Filespace
	clean   filesystem.Filespace
	raw     filesystem.Filespace
	cleanup func()
}

func cipherFor(kind string) cipherfs.Cipher {
	if strings.Contains(kind, "ext") {
		return extcfs.NewDefaultCipher()
	}
	return aesgcm256cfs.NewCipher()
}

// newBackend builds a stack. st == nil: no fault layer. inner: the fault layer sits below
// encryption (faults hit stored bytes), otherwise on top of the whole stack.
func newBackend(kind string, st *FaultState, inner bool) backend {
	b := backend{kind: kind, cleanup: func() {}}
	var base filesystem.Filespace
	var err error
	if strings.HasSuffix(kind, "disk") {
		dir, derr := os.MkdirTemp("", "verif-disk-")
		if derr != nil {
			panic(harnessTrouble{"mkdtemp: " + derr.Error()})
		}
		b.cleanup = func() { os.RemoveAll(dir) }
		if err = os.MkdirAll(dir+"/root", 0o777); err != nil {
			panic(harnessTrouble{err.Error()})
		}
		base, err = diskfs.NewFilespace(dir + "/root")
	} else {
		base, err = memfs.NewFilespace()
	}
	if err != nil {
		panic(harnessTrouble{"backend " + kind + ": " + err.Error()})
	}
	b.raw = base
	stack := func(under filesystem.Filespace) filesystem.Filespace {
		switch {
		case strings.HasPrefix(kind, "enc-"):
			fs, err := encryptfs.NewEncryptFS(under, encryptfs.Settings{Salt: []byte("salt"), Secret: []byte("secret"), Cipher: cipherFor(kind)})
			if err != nil {
				panic(harnessTrouble{err.Error()})
			}
			return fs
		case strings.HasPrefix(kind, "cache-"):
			c, err := fscache.NewMemCache(under)
			if err != nil {
				panic(harnessTrouble{err.Error()})
			}
			return c
		}
		return under
	}
	if st == nil {
		b.fs = stack(base)
		b.clean = b.fs
		return b
	}
	if inner && strings.HasPrefix(kind, "enc-") {
		b.fs = stack(NewFaultFS(base, st))
		b.clean = stack(base)
		return b
	}
	top := stack(base)
	b.fs = NewFaultFS(top, st)
	b.clean = top
	if strings.HasPrefix(kind, "enc-") {
		b.clean = stack(base)
	}
	return b
}
