package simcheck

import (
	"bytes"
	"os"
	"strings"

	"github.com/goatcms/goatcore/filesystem"
	"github.com/goatcms/goatcore/filesystem/filespace/diskfs"
	"github.com/goatcms/goatcore/filesystem/filespace/memfs"
)

// C02 — disk filespace obeys the same contract as the in-memory one.
//
// The C01 generator drives, in lock-step, a memory filespace and a disk filespace (root or
// behind a child view, per case). Each backend has its own copy of the model.  Where the
// preconditions of the statement hold (source exists, destination parent exists, copy
// destination absent, no file in the middle of a path) both backends must give the model's
// result class and the same bytes, and both trees must equal the model afterwards.  Outside
// them a backend may do what it likes as long as it does not panic and changes nothing
// outside the addressed paths (the host directory above the disk root included); its
// model copy is then re-synchronised from what it shows.

type c02In struct {
	Ops      []FsOp `json:"ops"`
	MemView  bool   `json:"mem_view"`  // memory side runs behind a child view
	DiskView bool   `json:"disk_view"` // disk side runs behind a child view
	Two      bool   `json:"two,omitempty"` // each side is used through two filespace objects for the same root (ops with view 1 go through the second)
}

func c02Gen(r *Rand, tier string) interface{} {
	n := 1 + r.Intn(30)
	if r.Chance(1, 3) {
		n = 1 + r.Intn(6)
	}
	if tier == "thorough" && r.Chance(1, 10) {
		n = 30 + r.Intn(60)
	}
	in := &c02In{MemView: r.Chance(1, 3), DiskView: r.Chance(1, 3), Two: r.Chance(1, 3)}
	in.Ops = genFsOps(r, n, nil, false, nil)
	for i := range in.Ops {
		in.Ops[i].View = 0
		if in.Two && r.Chance(1, 3) {
			in.Ops[i].View = 1
		}
		if in.Ops[i].Kind == "Filespace" {
			in.Ops[i].Kind = "ReadDir"
		}
	}
	return in
}

// c02Pre reports whether the statement's preconditions hold for op on model m.
func c02Pre(m *ModelTree, op FsOp) bool {
	segs, climbs := normPath(op.Path)
	if climbs {
		return false
	}
	n := m.lookup(segs)
	switch op.Kind {
	case "IsExist", "IsFile", "IsDir", "Lstat", "ReadDir", "ReadFile", "Reader":
		return true
	case "MkdirAll":
		return !m.fileOnPath(append(append([]string{}, segs...), "x")) && (n == nil || n.dir)
	case "WriteFile", "Writer":
		return len(segs) > 0 && m.parentOf(segs) != nil && (n == nil || !n.dir)
	case "Remove", "RemoveAll":
		return len(segs) > 0 && n != nil
	case "Copy", "CopyFile", "CopyDirectory":
		dst, climbs2 := normPath(op.Path2)
		if climbs2 || n == nil || len(segs) == 0 || len(dst) == 0 {
			return false
		}
		if op.Kind == "CopyFile" && n.dir || op.Kind == "CopyDirectory" && !n.dir {
			return false
		}
		return m.parentOf(dst) != nil && m.lookup(dst) == nil && !hasPrefix(dst, segs)
	}
	return false
}

func modelFromFlat(flat map[string]string) *ModelTree {
	m := NewModelTree()
	for _, p := range sortedNamesS(flat) {
		segs := strings.Split(p, "/")
		if flat[p] == "D" {
			m.mkdirs(segs)
		} else {
			m.mkdirs(segs[:len(segs)-1]).kids[segs[len(segs)-1]] = &mnode{data: []byte(strings.TrimPrefix(flat[p], "F:"))}
		}
	}
	return m
}

type c02Side struct {
	name  string
	fs    filesystem.Filespace
	model *ModelTree
}

func c02Run(inI interface{}, env *Env) *Failure {
	in := inI.(*c02In)
	env.Count("nontrivial")
	mem, err := memfs.NewFilespace()
	if err != nil {
		panic(harnessTrouble{err.Error()})
	}
	dir, err := os.MkdirTemp("", "verif-c02-")
	if err != nil {
		panic(harnessTrouble{err.Error()})
	}
	defer os.RemoveAll(dir)
	if err := os.MkdirAll(dir+"/root/base", 0o777); err != nil {
		panic(harnessTrouble{err.Error()})
	}
	if err := os.WriteFile(dir+"/canary", []byte("host canary"), 0o644); err != nil {
		panic(harnessTrouble{err.Error()})
	}
	disk, err := diskfs.NewFilespace(dir + "/root/base")
	if err != nil {
		panic(harnessTrouble{err.Error()})
	}
	if in.DiskView {
		top, err := diskfs.NewFilespace(dir + "/root")
		if err != nil {
			panic(harnessTrouble{err.Error()})
		}
		if disk, err = top.Filespace("base"); err != nil {
			panic(harnessTrouble{"disk child view: " + err.Error()})
		}
	}
	if in.MemView {
		if err := mem.MkdirAll("base", filesystem.DefaultUnixDirMode); err != nil {
			panic(harnessTrouble{err.Error()})
		}
		if mem, err = mem.Filespace("base"); err != nil {
			panic(harnessTrouble{"mem child view: " + err.Error()})
		}
	}
	hostBefore, _ := snapshotHost(dir, "root/base")()
	sides := []*c02Side{{"memory", mem, NewModelTree()}, {"disk", disk, NewModelTree()}}
	// a second, long-lived filespace object for the same root on each side: what one object
	// remembers must not go stale when the tree changes through the other
	var second [2]filesystem.Filespace
	if in.Two {
		for si, sd := range sides {
			alt, err := sd.fs.Filespace(".")
			if err != nil {
				panic(harnessTrouble{"second handle on the " + sd.name + " side: " + err.Error()})
			}
			second[si] = alt
		}
	}
	for i, op := range in.Ops {
		var results [2]FsResult
		var pres [2]bool
		if segs, climbs := normPath(op.Path); !climbs && len(segs) == 0 && (op.Kind == "Remove" || op.Kind == "RemoveAll") {
			// removing the filespace's own root is outside every statement and leaves nothing to compare
			env.Count("probe.history-cut:remove of the root")
			break
		}
		sameState := DiffTrees(sides[0].model.Flatten(), sides[1].model.Flatten()) == ""
		for si, sd := range sides {
			pre := c02Pre(sd.model, op)
			pres[si] = pre
			before := sd.model.Flatten()
			exp := sd.model.Expectation(nil, op)
			target := sd.fs
			if in.Two && op.View == 1 {
				target = second[si]
			}
			r := RunFsOp(target, op)
			results[si] = r
			key := sd.name + "/" + op.Kind
			if r.Panic != "" {
				return failf("C02/panic", key, "op %d %s on the %s filespace panicked: %s", i, op, sd.name, r.Panic)
			}
			got, clause, msg := WalkFSLimit(sd.fs, sd.model.WalkLimit())
			if clause != "" {
				return failf("C02/"+clause, key, "after op %d %s on %s: %s", i, op, sd.name, msg)
			}
			if pre {
				env.Count("probe.ops-inside-preconditions")
				if c, m := Judge(exp, op, r); c != "" {
					return failf("C02/"+c, key, "op %d on the %s filespace (preconditions hold): %s", i, sd.name, m)
				}
				if exp.Outcome == Either && r.Err == nil && exp.apply == nil && isMutation(op.Kind) {
					sd.model = modelFromFlat(got)
				}
				if d := DiffTrees(got, sd.model.Flatten()); d != "" {
					return failf("C02/tree-differs", key, "after op %d %s on the %s filespace (preconditions hold): %s", i, op, sd.name, d)
				}
			} else {
				env.Count("probe.ops-outside-preconditions")
				// clean failure or any effect confined to the addressed paths
				a1, _ := normPath(op.Path)
				addrs := [][]string{a1}
				if strings.HasPrefix(op.Kind, "Copy") {
					a2, _ := normPath(op.Path2)
					addrs = append(addrs, a2)
				}
				addressed := func(p string) bool {
					ps := strings.Split(p, "/")
					for _, a := range addrs {
						if hasPrefix(ps, a) || hasPrefix(a, ps) {
							return true
						}
					}
					return false
				}
				for _, p := range sortedNamesS(unionKeys(before, got)) {
					if before[p] != got[p] && !addressed(p) {
						return failf("C02/changed-outside-addressed-paths", key, "op %d %s on the %s filespace (outside the preconditions) changed %q from %s to %s", i, op, sd.name, p, short(before[p]), short(got[p]))
					}
				}
				sd.model = modelFromFlat(got)
			}
		}
		// same results on both backends when the preconditions hold on both
		if pres[0] && pres[1] && sameState {
			a, b := results[0], results[1]
			if (a.Err == nil) != (b.Err == nil) {
				return failf("C02/backends-disagree", op.Kind, "op %d %s: memory err=%v, disk err=%v", i, op, a.Err, b.Err)
			}
			if a.Err == nil {
				if a.Bool != b.Bool || !bytes.Equal(a.Data, b.Data) {
					return failf("C02/backends-disagree", op.Kind, "op %d %s: memory answered %v %q, disk %v %q", i, op, a.Bool, a.Data, b.Bool, b.Data)
				}
			}
		}
		hostAfter, _ := snapshotHost(dir, "root/base")()
		if d := DiffTrees(hostAfter, hostBefore); d != "" {
			return failf("C02/host-changed", op.Kind, "op %d %s changed the host directory outside the disk filespace's root: %s", i, op, d)
		}
	}
	env.CountN("history.operations", len(in.Ops))
	return nil
}

func unionKeys(a, b map[string]string) map[string]string {
	out := map[string]string{}
	for k := range a {
		out[k] = ""
	}
	for k := range b {
		out[k] = ""
	}
	return out
}

func c02Shrink(inI interface{}) []interface{} {
	in := inI.(*c02In)
	var out []interface{}
	for _, c := range fsHistShrink(&fsHistIn{Ops: in.Ops}) {
		n := *in
		n.Ops = c.(*fsHistIn).Ops
		out = append(out, &n)
	}
	if in.MemView {
		n := *in
		n.MemView = false
		out = append(out, &n)
	}
	if in.DiskView {
		n := *in
		n.DiskView = false
		out = append(out, &n)
	}
	return out
}

func init() {
	register(&Prop{
		ID:     "C02",
		Level:  "exploration",
		Gen:    c02Gen,
		New:    func() interface{} { return &c02In{} },
		Run:    c02Run,
		Shrink: c02Shrink,
		Rule: "one case = a history of 1-30 operations (thorough: up to 90) from the C01 generator applied in lock-step to a memory and a disk filespace (each optionally behind a child view), paths in random spellings; inside the statement's preconditions both must give the model's result and equal bytes and both trees must equal the model after every step; outside them: no panic, nothing changed outside the addressed paths, host directory above the disk root untouched; " +
			"every history is non-trivial; distinct = distinct (operations, view configuration). Single task, no fault dimension (diskfs has no seam below it); the disk side runs on a private directory of the real file system.",
		Real:        []string{"filesystem/filespace/diskfs", "filesystem/disk", "filesystem/filespace/memfs", "the operating system's file system under a private temporary directory"},
		Stub:        []string{"sync -> simrt (solo mode)"},
		Assumptions: []string{"ReadDir is compared as a name->kind set; modification times, modes and error texts are not compared"},
	})
}
