// Package simcheck holds the simulation harness: engine (seeds, choice stream, shrinking,
// replay), the fault layer and reference models, and one file per property.
package simcheck

import (
	"sync/atomic"
	"encoding/json"
	"fmt"
	"hash/fnv"
	"os"
	"sort"
	"strings"
	"testing"
	"time"

	"simrt"
)

// ---------------------------------------------------------------------------------
// PRNG: splitmix64, own implementation so that sequences never depend on the Go release.

type Rand struct{ s uint64 }

func NewRand(seed uint64) *Rand { return &Rand{s: seed} }

func (r *Rand) Uint64() uint64 {
	r.s += 0x9e3779b97f4a7c15
	z := r.s
	z = (z ^ (z >> 30)) * 0xbf58476d1ce4e5b9
	z = (z ^ (z >> 27)) * 0x94d049bb133111eb
	return z ^ (z >> 31)
}

func (r *Rand) Intn(n int) int {
	if n <= 1 {
		return 0
	}
	return int(r.Uint64() % uint64(n))
}

func (r *Rand) Bool() bool         { return r.Uint64()&1 == 1 }
func (r *Rand) Chance(p, q int) bool { return r.Intn(q) < p }
func (r *Rand) Pick(xs ...int) int { return xs[r.Intn(len(xs))] }

func mix(a, b uint64) uint64 {
	r := Rand{s: a ^ (b * 0x9e3779b97f4a7c15)}
	r.Uint64()
	return r.Uint64()
}

func strHash(s string) uint64 {
	h := fnv.New64a()
	h.Write([]byte(s))
	return h.Sum64()
}

// RunSeed derives the seed of run i of a property from VERIF_SEED.
func RunSeed(verifSeed uint64, prop string, i int) uint64 {
	return mix(mix(verifSeed, strHash(prop)), uint64(i)+1)
}

// ---------------------------------------------------------------------------------
// Choice stream

const (
	modeGen = iota
	modeLoose
	modeStrict
)

// Stay is the recorded schedule value meaning "keep running the task that just yielded".
const Stay = -1

// Choices is the recorded choice stream of a run: schedule picks (task ids) and draws.
type Choices struct {
	Sched []int `json:"sched"`
	Draws []int `json:"draws"`
}

type chooser struct {
	mode      int
	rng       *Rand
	switchDen int // 1 = uniform; k>1: keep current task with probability (k-1)/k
	pctDen    int // >0: priority schedule (PCT style): highest priority runs; at each decision the running task is demoted below everybody with probability 1/pctDen
	prio      map[int]int
	low       int
	last      int
	streak    int
	in        Choices
	si, di    int
	out       Choices
	diverged  string
}

func (c *chooser) Pick(cur int, runnable []int, sites []int) int {
	has := func(id int) bool {
		for _, x := range runnable {
			if x == id {
				return true
			}
		}
		return false
	}
	pick := 0
	switch c.mode {
	case modeGen:
		if c.pctDen > 0 {
			if c.prio == nil {
				c.prio = map[int]int{}
			}
			for _, id := range runnable {
				if _, ok := c.prio[id]; !ok {
					c.prio[id] = 1 + c.rng.Intn(1<<30)
				}
			}
			// a task picked 64 times in a row is demoted too: a spin loop must not starve the
			// task it is waiting for until the step budget forces round-robin
			if cur != 0 && (c.rng.Intn(c.pctDen) == 0 || c.streak >= 64) {
				c.low--
				c.prio[cur] = c.low
			}
			pick = runnable[0]
			for _, id := range runnable[1:] {
				if c.prio[id] > c.prio[pick] {
					pick = id
				}
			}
			if pick == c.last {
				c.streak++
			} else {
				c.last, c.streak = pick, 0
			}
		} else if cur != 0 && c.switchDen > 1 && c.rng.Intn(c.switchDen) != 0 {
			pick = cur
		} else {
			pick = runnable[c.rng.Intn(len(runnable))]
		}
	default:
		want := Stay
		if c.si < len(c.in.Sched) {
			want = c.in.Sched[c.si]
		} else if c.mode == modeStrict {
			c.diverge("schedule exhausted at decision %d", c.si)
		}
		c.si++
		switch {
		case want != Stay && has(want):
			pick = want
		case want == Stay && cur != 0:
			pick = cur
		default:
			if c.mode == modeStrict && want != Stay {
				c.diverge("recorded task %d not runnable at decision %d (runnable %v)", want, c.si-1, runnable)
			}
			pick = runnable[0]
		}
	}
	c.out.Sched = append(c.out.Sched, pick)
	return pick
}

func (c *chooser) Draw(n int) int {
	v := 0
	switch c.mode {
	case modeGen:
		v = c.rng.Intn(n)
	default:
		if c.di < len(c.in.Draws) {
			v = c.in.Draws[c.di]
			if v < 0 || v >= n {
				if c.mode == modeStrict {
					c.diverge("recorded draw %d out of range %d", v, n)
				}
				v = 0
			}
		} else if c.mode == modeStrict {
			c.diverge("draws exhausted at %d", c.di)
		}
		c.di++
	}
	c.out.Draws = append(c.out.Draws, v)
	return v
}

func (c *chooser) diverge(f string, a ...interface{}) {
	if c.diverged == "" {
		c.diverged = fmt.Sprintf(f, a...)
	}
}

// ---------------------------------------------------------------------------------
// Properties, environment, failures

// Failure describes one violated oracle clause.
type Failure struct {
	Clause string `json:"clause"` // stable id, e.g. C08/lost-item
	Key    string `json:"key"`    // shape of the minimal trigger, used to match known findings
	Msg    string `json:"msg"`
	// budgetVerdict: the failure says "did not end within the step budget"; execCase confirms
	// it with a much longer fair tail before it counts
	budgetVerdict bool
}

func (f *Failure) String() string { return f.Clause + " [" + f.Key + "] " + f.Msg }

func failf(clause, key, format string, a ...interface{}) *Failure {
	return &Failure{Clause: clause, Key: key, Msg: fmt.Sprintf(format, a...)}
}

// Prop is one property check.
type Prop struct {
	ID    string
	Level string // exploration | fault_enumeration
	// Gen draws a fresh input. Inputs are pointers to JSON-serialisable structs.
	Gen func(r *Rand, tier string) interface{}
	// GenIndexed, when set, is used instead of Gen: run indexes below SweepSize(tier) enumerate
	// a bounded space completely (deterministically, independent of the seed), later indexes
	// are random.
	GenIndexed func(i int, r *Rand, tier string) interface{}
	SweepSize  func(tier string) int
	// New returns an empty input to decode a replay file into.
	New func() interface{}
	// Run executes the input and checks every oracle clause.
	Run func(in interface{}, env *Env) *Failure
	// Shrink proposes strictly simpler inputs (may be nil).
	Shrink func(in interface{}) []interface{}
	// Real / Stub describe which components ran real code and which were stubs.
	Real, Stub  []string
	Rule        string
	Assumptions []string
	// Bounded sweep executed once per check invocation by worker 0 (may be nil).
	Sweep func(env *Env, tier string) (cases int, f *Failure)
}

var props = map[string]*Prop{}

func register(p *Prop) { props[p.ID] = p }

// Env is what a property's Run sees of the engine.
type Env struct {
	T        *testing.T
	ch       *chooser
	sub      *chooser // when set: a loose replay of a recorded segment serves every choice
	Tier     string
	Counters map[string]int
	stats    *runStats
	keepLog  bool
	logs     [][]simrt.Event
	known    func(clause, key string) bool
	KnownHit map[string]string // key -> what, findings met (and resynchronised) by this run
	ArmSeed  uint64
	ArmPct   int // percentage of statement sites armed as preemption points
	tailScale int // >1: the fair round-robin tail of every simulation is that many times longer (confirmation run)
	stop      *atomic.Bool // confirmation run: set after 20 s of wall-clock time; a run that long past its budget does not end in any useful sense
	hash     uint64
	SimTime  time.Duration
}

type runStats struct {
	steps, decisions, switches, sims int
	schedHash                         uint64
}

// Count bumps a named counter (faults fired, rare-condition probes...).
func (e *Env) Count(name string) { e.Counters[name]++ }
func (e *Env) CountN(name string, n int) {
	e.Counters[name] += n
}

// Draw takes a value from the run's choice stream (usable inside and outside a sim).
func (e *Env) Draw(n int) int {
	if n <= 1 {
		return 0
	}
	return e.chooser().Draw(n)
}

func (e *Env) chooser() *chooser {
	if e.sub != nil {
		return e.sub
	}
	return e.ch
}

// Mark / Segment / WithReplay let a property re-execute something under exactly the
// choices (schedule picks, map iteration orders) of an earlier execution of the same run:
// fault enumeration needs the faulted executions to follow the dry run up to the fault.
type Mark struct{ s, d int }

func (e *Env) Mark() Mark { return Mark{len(e.ch.out.Sched), len(e.ch.out.Draws)} }

func (e *Env) Segment(m Mark) Choices {
	return Choices{Sched: append([]int(nil), e.ch.out.Sched[m.s:]...), Draws: append([]int(nil), e.ch.out.Draws[m.d:]...)}
}

func (e *Env) WithReplay(seg Choices, f func()) {
	old := e.sub
	e.sub = &chooser{mode: modeLoose, in: seg}
	simrt.SoloDraw = e.sub.Draw
	defer func() {
		e.sub = old
		simrt.SoloDraw = e.chooser().Draw
	}()
	f()
}

// Known reports whether (clause,key) is a listed known finding; if so it is recorded.
func (e *Env) Known(clause, key, what string) bool {
	if e.known != nil && e.known(clause, key) {
		e.KnownHit[clause+" "+key] = what
		return true
	}
	return false
}

// SimOpts tunes one simulated execution.
type SimOpts struct {
	MaxSteps  int
	FairSteps int
	NoRace    bool
}

// Sim runs main as the first task of a fresh simulation under the run's choice stream.
func (e *Env) Sim(opts SimOpts, main func()) *simrt.Result {
	cfg := simrt.Config{
		Chooser:   e.chooser(),
		MaxSteps:  opts.MaxSteps,
		FairSteps: opts.FairSteps * max(1, e.tailScale),
		Stop:      e.stop,
		KeepLog:   e.keepLog,
		NoRace:    opts.NoRace,
	}
	if e.ArmPct > 0 {
		seed, pct := e.ArmSeed, uint64(e.ArmPct)
		cfg.Armed = func(site int) bool { return mix(seed, uint64(site))%100 < pct }
	}
	res := simrt.Run(e.T, cfg, main)
	e.stats.steps += res.Steps
	e.stats.decisions += res.Decisions
	e.stats.switches += res.Switches
	e.stats.sims++
	e.stats.schedHash = mix(e.stats.schedHash, res.SchedHash)
	e.hash = mix(e.hash, res.LogHash)
	e.SimTime += res.SimTime
	if e.keepLog {
		e.logs = append(e.logs, res.Log)
	}
	for p := range res.Pairs {
		if len(pairSeen) < 1<<18 {
			pairSeen[p] = struct{}{}
		}
	}
	if res.Idles > 0 {
		e.CountN("sim.idle-advances", res.Idles)
	}
	if res.ChanBlocks > 0 {
		e.CountN("probe.task-really-blocked-in-a-channel-operation", res.ChanBlocks)
	}
	return res
}

var pairSeen = map[[2]int]struct{}{}

// SimFailure converts generic bad outcomes of a simulation into failures. prefix is the
// property id. Harness trouble panics with harnessTrouble (exit 2).
func (e *Env) SimFailure(prefix string, res *simrt.Result) *Failure {
	if res.HarnessErr != "" {
		panic(harnessTrouble{res.HarnessErr})
	}
	if res.Fatal != "" {
		return failf(prefix+"/fatal", firstLine(res.Fatal), "%s", res.Fatal)
	}
	if len(res.Panics) > 0 {
		p := res.Panics[0]
		return failf(prefix+"/panic", panicKey(p.Value), "task %d (%s) panicked: %s\n%s", p.Task, p.Name, p.Value, p.Stack)
	}
	if res.Deadlock && res.MainDone {
		// the caller finished; what is left are goroutines blocked for ever (a leak)
		e.Count("probe.goroutines-left-blocked-after-caller-finished")
	} else if res.Deadlock {
		return failf(prefix+"/deadlock", "", "deadlock: %s", strings.Join(res.Blocked, "; "))
	}
	if res.Livelock && !res.MainActive && len(res.Blocked) > 0 && res.Blocked[0] == "step budget and fair round-robin tail exhausted" && res.StepsSinceProgress < 2000 {
		// tasks were still being woken / finishing right up to the end of the budget: a long
		// run, not a hang (a real hang ends as a deadlock, or as "only spinning tasks remain")
		return &Failure{Clause: "", Msg: "step budget exhausted while tasks were still making progress"}
	}
	if res.Livelock && res.MainActive {
		// the step budget ran out while the workload's own driver task was still running
		// operations: a long history, not a hang. Inconclusive, never a violation.
		return &Failure{Clause: "", Msg: "step budget exhausted while the main task was still making progress"}
	}
	if res.Livelock {
		f := failf(prefix+"/no-termination", "", "no termination under a fair schedule: %s", strings.Join(res.Blocked, "; "))
		f.budgetVerdict = true
		return f
	}
	return nil
}

func firstLine(s string) string {
	if i := strings.IndexByte(s, '\n'); i >= 0 {
		return s[:i]
	}
	return s
}

func panicKey(v string) string {
	v = firstLine(v)
	if len(v) > 80 {
		v = v[:80]
	}
	return v
}

type harnessTrouble struct{ msg string }

// ---------------------------------------------------------------------------------
// executing one case

type caseResult struct {
	fail     *Failure
	choices  Choices
	hash     uint64
	stats    runStats
	counters map[string]int
	knownHit map[string]string
	diverged string
	trouble  string
	simTime  time.Duration
	logs     [][]simrt.Event
}

type caseMeta struct {
	SwitchDen int    `json:"switch_den"`
	PCTDen    int    `json:"pct_den,omitempty"`
	ArmPct    int    `json:"arm_pct"`
	ArmSeed   uint64 `json:"arm_seed"`
}

func execCase(t *testing.T, p *Prop, in interface{}, meta caseMeta, ch *chooser, tier string, keepLog bool) (cr caseResult) {
	env := &Env{T: t, ch: ch, Tier: tier, Counters: map[string]int{}, stats: &runStats{}, keepLog: keepLog,
		KnownHit: map[string]string{}, ArmSeed: meta.ArmSeed, ArmPct: meta.ArmPct, known: knownLookup(p.ID)}
	simrt.SoloDraw = ch.Draw
	defer func() {
		simrt.SoloDraw = nil
		if r := recover(); r != nil {
			if ht, ok := r.(harnessTrouble); ok {
				cr.trouble = ht.msg
			} else {
				panic(r)
			}
		}
		cr.choices = ch.out
		cr.hash = env.hash
		cr.stats = *env.stats
		cr.counters = env.Counters
		cr.knownHit = env.KnownHit
		cr.diverged = ch.diverged
		cr.simTime = env.SimTime
		cr.logs = env.logs
		if cr.fail != nil {
			cr.hash = mix(cr.hash, strHash(cr.fail.Clause))
		}
	}()
	cr.fail = p.Run(in, env)
	if cr.fail != nil && cr.fail.budgetVerdict {
		// "did not end within the budget" is only believed if the very same execution (same
		// input, same choices) still does not end with a fair tail 40 times as long; a long
		// but finite run is inconclusive, never a violation
		cenv := &Env{T: t, ch: &chooser{mode: modeLoose, in: ch.out}, Tier: tier, Counters: map[string]int{}, stats: &runStats{},
			KnownHit: map[string]string{}, ArmSeed: meta.ArmSeed, ArmPct: meta.ArmPct, known: knownLookup(p.ID), tailScale: 40}
		simrt.SoloDraw = cenv.ch.Draw
		cenv.stop = &atomic.Bool{}
		guard := time.AfterFunc(45*time.Second, func() { cenv.stop.Store(true) })
		cf := p.Run(cloneInput(p, in), cenv)
		guard.Stop()
		simrt.SoloDraw = ch.Draw
		if cf != nil && cf.budgetVerdict && cenv.stop.Load() {
			// the confirmation run itself was cut by the wall-clock guard: too slow to tell on
			// this machine at this load - inconclusive (a verdict must not depend on load)
			cr.fail = &Failure{Clause: "", Msg: "no termination within the step budget; the confirmation run was cut by the 45 s wall-clock guard"}
		} else if cf == nil || !cf.budgetVerdict {
			cr.fail = &Failure{Clause: "", Msg: "no termination within the step budget, but the same execution ends when the fair tail is 40 times longer"}
		} else {
			env.Count("probe.no-termination-confirmed-with-40x-tail")
		}
	}
	if cr.fail != nil && cr.fail.Clause == "" {
		env.Count("probe.inconclusive:" + cr.fail.Msg)
		cr.fail = nil
	}
	return
}

// ---------------------------------------------------------------------------------
// replay files

type Replay struct {
	Property  string          `json:"property"`
	VerifSeed uint64          `json:"verif_seed"`
	Index     int             `json:"index"`
	Seed      uint64          `json:"seed"`
	Tier      string          `json:"tier"`
	Meta      caseMeta        `json:"meta"`
	Input     json.RawMessage `json:"input"`
	Choices   Choices         `json:"choices"`
	Clause    string          `json:"clause"`
	Key       string          `json:"key"`
	Msg       string          `json:"msg"`
	Hash      uint64          `json:"hash"`
	Shrunk    shrinkInfo      `json:"shrunk"`
	Trace     []string        `json:"trace,omitempty"`
	// WallClock: the case did not come back within the per-case wall-clock limit (a loop in
	// code that never reaches a scheduling point). There are no recorded choices: the replay
	// re-runs the case from its seed and must overrun the limit again.
	WallClock bool `json:"wall_clock,omitempty"`
}

type shrinkInfo struct {
	Execs       int `json:"execs"`
	SchedBefore int `json:"sched_before"`
	SchedAfter  int `json:"sched_after"`
	InputBefore int `json:"input_bytes_before"`
	InputAfter  int `json:"input_bytes_after"`
}

func mustJSON(v interface{}) []byte {
	b, err := json.Marshal(v)
	if err != nil {
		panic(err)
	}
	return b
}

func cloneInput(p *Prop, in interface{}) interface{} {
	out := p.New()
	if err := json.Unmarshal(mustJSON(in), out); err != nil {
		panic(err)
	}
	return out
}

// ---------------------------------------------------------------------------------
// shrinking

func shrinkCase(t *testing.T, p *Prop, in interface{}, meta caseMeta, cr caseResult, tier string) (interface{}, caseMeta, caseResult, int) {
	clause := cr.fail.Clause
	execs := 0
	deadline := time.Now().Add(12 * time.Second)
	budget := 400
	exhausted := func() bool { return execs >= budget || time.Now().After(deadline) }
	try := func(cand interface{}, m caseMeta, ch Choices) (caseResult, bool) {
		if exhausted() {
			return caseResult{}, false
		}
		execs++
		c := &chooser{mode: modeLoose, in: ch}
		r := execCase(t, p, cloneInput(p, cand), m, c, tier, false)
		if r.trouble != "" || r.fail == nil || r.fail.Clause != clause {
			return r, false
		}
		return r, true
	}
	// the recorded run must fail again under loose replay, otherwise leave it alone
	if r, ok := try(in, meta, cr.choices); ok {
		cr = r
	} else {
		return in, meta, cr, execs
	}
	improved := true
	for improved && !exhausted() {
		improved = false
		// 1. simpler inputs
		if p.Shrink != nil {
			for again := true; again; {
				again = false
				for _, cand := range p.Shrink(in) {
					if r, ok := try(cand, meta, cr.choices); ok {
						in, cr, again, improved = cand, r, true, true
						break
					}
				}
			}
		}
		// 2. no statement preemption
		if meta.ArmPct > 0 {
			m := meta
			m.ArmPct = 0
			if r, ok := try(in, m, cr.choices); ok {
				meta, cr, improved = m, r, true
			}
		}
		// 3. fewer context switches: replace chunks of picks by Stay
		for chunk := len(cr.choices.Sched); chunk >= 1 && !exhausted() && len(cr.choices.Sched) < 50000; chunk /= 2 {
			for start := 0; start < len(cr.choices.Sched) && !exhausted(); start += chunk {
				cand := Choices{Sched: append([]int(nil), cr.choices.Sched...), Draws: cr.choices.Draws}
				changed := false
				for i := start; i < start+chunk && i < len(cand.Sched); i++ {
					if cand.Sched[i] != Stay {
						cand.Sched[i] = Stay
						changed = true
					}
				}
				if !changed {
					continue
				}
				if r, ok := try(in, meta, cand); ok && switchCount(r.choices.Sched) < switchCount(cr.choices.Sched) {
					cr, improved = r, true
				}
			}
			if execs >= budget {
				break
			}
		}
		// 4. zero the draws
		for chunk := len(cr.choices.Draws); chunk >= 1 && !exhausted() && len(cr.choices.Draws) < 50000; chunk /= 2 {
			for start := 0; start < len(cr.choices.Draws) && !exhausted(); start += chunk {
				cand := Choices{Sched: cr.choices.Sched, Draws: append([]int(nil), cr.choices.Draws...)}
				changed := false
				for i := start; i < start+chunk && i < len(cand.Draws); i++ {
					if cand.Draws[i] != 0 {
						cand.Draws[i] = 0
						changed = true
					}
				}
				if !changed {
					continue
				}
				if r, ok := try(in, meta, cand); ok {
					cr, improved = r, true
				}
			}
			if execs >= budget {
				break
			}
		}
	}
	return in, meta, cr, execs
}

func switchCount(s []int) int {
	n := 0
	for i := 1; i < len(s); i++ {
		if s[i] != s[i-1] {
			n++
		}
	}
	return n
}

// ---------------------------------------------------------------------------------
// known findings

type finding struct {
	Property string `json:"property"`
	Status   string `json:"status"` // known | fixed
	Clause   string `json:"clause"`
	Key      string `json:"key"` // exact key, or prefix when it ends with '*'
	What     string `json:"what"`
	Commit   string `json:"commit,omitempty"`
}

var findings []finding

func loadFindings(path string) {
	b, err := os.ReadFile(path)
	if err != nil {
		return
	}
	var doc struct {
		Findings []finding `json:"findings"`
	}
	if err := json.Unmarshal(b, &doc); err != nil {
		panic(harnessTrouble{"known_findings.json: " + err.Error()})
	}
	findings = doc.Findings
}

func matchFinding(prop, clause, key string) *finding {
	for i := range findings {
		f := &findings[i]
		if f.Status != "known" || f.Property != prop || f.Clause != clause {
			continue
		}
		if f.Key == key || (strings.HasSuffix(f.Key, "*") && strings.HasPrefix(key, strings.TrimSuffix(f.Key, "*"))) {
			return f
		}
	}
	return nil
}

func knownLookup(prop string) func(clause, key string) bool {
	return func(clause, key string) bool { return matchFinding(prop, clause, key) != nil }
}

// ---------------------------------------------------------------------------------
// site table (file:line of instrumentation sites), for readable traces

type siteInfo struct {
	ID   int    `json:"id"`
	File string `json:"file"`
	Line int    `json:"line"`
	Kind string `json:"kind"`
	Func string `json:"func"`
}

var siteTable []siteInfo

func loadSites(path string) {
	b, err := os.ReadFile(path)
	if err != nil {
		return
	}
	_ = json.Unmarshal(b, &siteTable)
}

func siteName(id int) string {
	if id > 0 && id < len(siteTable) {
		s := siteTable[id]
		return fmt.Sprintf("%s:%d(%s)", s.File, s.Line, s.Func)
	}
	return fmt.Sprintf("site%d", id)
}

func sortedKeys(m map[string]int) []string {
	ks := make([]string, 0, len(m))
	for k := range m {
		ks = append(ks, k)
	}
	sort.Strings(ks)
	return ks
}

func simrtIsAbort(p interface{}) bool { return simrt.IsAbort(p) }
