package simcheck

import (
	"bytes"
	"fmt"
	"sort"
	"strings"

	"github.com/goatcms/goatcore/filesystem"
	"github.com/goatcms/goatcore/filesystem/filespace/memfs"
	"simrt"
)

// C09 — in-memory filespace stays consistent under concurrent use.
//
// 2-4 client tasks, 1-6 operations each, on a deliberately tiny shared name space
// (directories d1, d2; files f1, f2 in each) over one memfs under the seeded scheduler.
// Oracle = exactly the clauses of the statement (a regular register per file, not
// linearizability of the whole tree):
//  (a) a path only one client touched (and whose ancestors nobody removed) ends as that
//      client's last successful operation left it;
//  (b) every successful read returns a complete value written to that path (or its initial
//      value), never a mixture, and not a value that was overwritten by a write that had
//      completed before the read began (regular register); the final content is one of the
//      written values;
//  (c) two concurrent creations of the same new node leave one node;
//  (d) every listing ever returned has unique names;
//  (e) no panic, no deadlock, termination; no unsynchronised map access.

type c09Op struct {
	Kind string `json:"kind"` // WriteFile Writer ReadFile Reader MkdirAll Copy Remove RemoveAll ReadDir IsExist
	Path string `json:"path"`
	To   string `json:"to,omitempty"`
	Val  string `json:"val,omitempty"`
}

type c09In struct {
	Clients [][]c09Op `json:"clients"`
	Initial []string  `json:"initial"` // files that exist at the start (content "init:<path>")
	BigPath string    `json:"big_path,omitempty"` // every value of this file (also the initial one) is padded past 64 KiB
}

// c09Pad: values of the big file are padded to 65 000 - 72 000 bytes with a byte that
// depends on the value, so a mixture of two values is never a complete value.
func c09Pad(v string) string {
	h := strHash(v)
	return v + strings.Repeat(string(rune('a'+h%26)), 65000+int(h%7000))
}

func (in *c09In) initVal(path string) string {
	if path == in.BigPath && path != "" {
		return c09Pad("init:" + path)
	}
	return "init:" + path
}

// expanded returns a copy whose values for BigPath are padded (the input stays compact).
func (in *c09In) expanded() *c09In {
	if in.BigPath == "" {
		return in
	}
	out := &c09In{Initial: in.Initial, BigPath: in.BigPath}
	for _, ops := range in.Clients {
		cp := append([]c09Op(nil), ops...)
		for i := range cp {
			if cp[i].Path == in.BigPath && cp[i].Val != "" {
				cp[i].Val = c09Pad(cp[i].Val)
			}
		}
		out.Clients = append(out.Clients, cp)
	}
	return out
}

// q quotes a value for a message (big values abbreviated).
func q(v string) string {
	if len(v) > 60 {
		return fmt.Sprintf("%q...(%d bytes, ends %q)", v[:40], len(v), v[len(v)-8:])
	}
	return fmt.Sprintf("%q", v)
}

var c09Files = []string{"d1/f1", "d1/f2", "d2/f1", "d2/f2", "top"}
var c09Dirs = []string{"d1", "d2", "d1/sub", "new"}

func c09Gen(r *Rand, tier string) interface{} {
	in := &c09In{}
	for _, f := range c09Files {
		if r.Chance(1, 2) {
			in.Initial = append(in.Initial, f)
		}
	}
	if r.Chance(1, 6) {
		in.BigPath = c09Files[r.Intn(len(c09Files))]
	}
	nc := 2 + r.Intn(3)
	val := 0
	// sometimes give every client its own private file to exercise clause (a)
	private := r.Chance(1, 3)
	for c := 0; c < nc; c++ {
		var ops []c09Op
		for i, n := 0, 1+r.Intn(6); i < n; i++ {
			val++
			op := c09Op{}
			switch r.Intn(12) {
			case 0, 1, 2:
				op = c09Op{Kind: "WriteFile", Path: c09Files[r.Intn(len(c09Files))], Val: fmt.Sprintf("v%d-%s", val, strings.Repeat("w", r.Intn(20)))}
			case 3:
				op = c09Op{Kind: "Writer", Path: c09Files[r.Intn(len(c09Files))], Val: fmt.Sprintf("v%d-%s", val, strings.Repeat("s", 4+r.Intn(20)))}
			case 4, 5:
				op = c09Op{Kind: "ReadFile", Path: c09Files[r.Intn(len(c09Files))]}
			case 6:
				op = c09Op{Kind: "Reader", Path: c09Files[r.Intn(len(c09Files))]}
			case 7:
				op = c09Op{Kind: "MkdirAll", Path: c09Dirs[r.Intn(len(c09Dirs))]}
			case 8:
				op = c09Op{Kind: "Copy", Path: c09Files[r.Intn(len(c09Files))], To: fmt.Sprintf("copy%d", r.Intn(2))}
				if r.Chance(1, 3) {
					// a whole directory, while others write into and remove below it
					op = c09Op{Kind: "Copy", Path: c09Dirs[r.Intn(3)], To: fmt.Sprintf("copydir%d", r.Intn(2))}
				}
			case 9:
				op = c09Op{Kind: []string{"Remove", "RemoveAll"}[r.Intn(2)], Path: append(append([]string{}, c09Files...), c09Dirs...)[r.Intn(len(c09Files)+len(c09Dirs))]}
			case 10:
				op = c09Op{Kind: "ReadDir", Path: []string{".", "d1", "d2"}[r.Intn(3)]}
			case 11:
				op = c09Op{Kind: "IsExist", Path: c09Files[r.Intn(len(c09Files))]}
			}
			// error paths under concurrency: the operation is aimed at a node of the wrong kind
			// (a stream or a write on a directory, a directory operation on a file); whatever it
			// answers, the operations after it must still get their turn
			if r.Chance(1, 8) {
				switch op.Kind {
				case "WriteFile", "Writer", "ReadFile", "Reader":
					op.Path = c09Dirs[r.Intn(3)]
				case "MkdirAll", "ReadDir":
					op.Path = c09Files[r.Intn(len(c09Files))]
				}
			}
			if private && (op.Kind == "WriteFile" || op.Kind == "Writer" || op.Kind == "ReadFile") && r.Chance(1, 2) {
				op.Path = fmt.Sprintf("private%d/file", c)
			}
			ops = append(ops, op)
		}
		in.Clients = append(in.Clients, ops)
	}
	return in
}

type c09Event struct {
	client     int
	op         c09Op
	call, ret  int
	err        error
	data       []byte
	names      []string
	exists     bool
}

func c09Run(inI interface{}, env *Env) *Failure {
	in := inI.(*c09In).expanded()
	var events []c09Event
	var final map[string]string
	var walkClause, walkMsg string
	seq := 0
	res := env.Sim(SimOpts{MaxSteps: 40000, FairSteps: 20000}, func() {
		fs, err := memfs.NewFilespace()
		if err != nil {
			panic(harnessTrouble{err.Error()})
		}
		for _, d := range []string{"d1", "d2"} {
			if err := fs.MkdirAll(d, filesystem.DefaultUnixDirMode); err != nil {
				panic(harnessTrouble{err.Error()})
			}
		}
		for _, f := range in.Initial {
			if err := fs.WriteFile(f, []byte(in.initVal(f)), filesystem.DefaultUnixFileMode); err != nil {
				panic(harnessTrouble{err.Error()})
			}
		}
		var wg simrt.WaitGroup
		wg.Add(len(in.Clients))
		for ci, ops := range in.Clients {
			ci, ops := ci, ops
			simrt.GoNamed(fmt.Sprintf("client%d", ci), func() {
				defer wg.Done()
				for _, op := range ops {
					seq++
					ev := c09Event{client: ci, op: op, call: seq}
					switch op.Kind {
					case "WriteFile":
						ev.err = fs.WriteFile(op.Path, []byte(op.Val), filesystem.DefaultUnixFileMode)
					case "Writer":
						w, err := fs.Writer(op.Path)
						ev.err = err
						if err == nil {
							half := len(op.Val) / 2
							_, e1 := w.Write([]byte(op.Val[:half]))
							simrt.Yield()
							if len(op.Val)%3 == 0 {
								// the owner of an open stream looks at the directory of its file (and at a
								// neighbour) before it goes on: legal, and must not wait for anybody who is
								// busy with that directory
								dir := "."
								if i := strings.LastIndex(op.Path, "/"); i >= 0 {
									dir = op.Path[:i]
								}
								_, _ = fs.ReadDir(dir)
								_ = fs.IsExist(dir + "/f2")
							}
							_, e2 := w.Write([]byte(op.Val[half:]))
							e3 := w.Close()
							for _, e := range []error{e1, e2, e3} {
								if e != nil && ev.err == nil {
									ev.err = e
								}
							}
						}
					case "ReadFile":
						ev.data, ev.err = fs.ReadFile(op.Path)
					case "Reader":
						rd, err := fs.Reader(op.Path)
						ev.err = err
						if err == nil {
							ev.data, ev.err = readChunked(rd, []int{3, 32768}) // 3 bytes, then the rest in big pieces
							if cerr := rd.Close(); ev.err == nil {
								ev.err = cerr
							}
						}
					case "MkdirAll":
						ev.err = fs.MkdirAll(op.Path, filesystem.DefaultUnixDirMode)
					case "Copy":
						ev.err = fs.Copy(op.Path, op.To)
					case "Remove":
						ev.err = fs.Remove(op.Path)
					case "RemoveAll":
						ev.err = fs.RemoveAll(op.Path)
					case "ReadDir":
						infos, err := fs.ReadDir(op.Path)
						ev.err = err
						ev.names = infoNames(infos)
					case "IsExist":
						ev.exists = fs.IsExist(op.Path)
					}
					seq++
					ev.ret = seq
					events = append(events, ev)
				}
			})
		}
		wg.Wait()
		final, walkClause, walkMsg = WalkFS(fs)
	})
	if res.Decisions > 0 {
		env.Count("nontrivial")
	}
	if f := env.SimFailure("C09", res); f != nil {
		return f
	}
	if len(res.Races) > 0 {
		rc := res.Races[0]
		return failf("C09/map-race", fmt.Sprintf("%s|%s", siteName(rc.Site1), siteName(rc.Site2)), "unsynchronised %s access to %s: %s (task %d) vs %s (task %d): fatal 'concurrent map' error under parallel execution", rc.Kind, rc.MapLabel, siteName(rc.Site1), rc.Task1, siteName(rc.Site2), rc.Task2)
	}
	if walkClause != "" {
		return failf("C09/"+walkClause, "final-walk", "final tree: %s", walkMsg)
	}
	// (d) listings have unique names
	for _, ev := range events {
		if ev.op.Kind == "ReadDir" && ev.err == nil {
			seen := map[string]bool{}
			for _, n := range ev.names {
				if seen[n] {
					return failf("C09/duplicate-name", "listing", "client %d: ReadDir(%q) returned %v", ev.client, ev.op.Path, ev.names)
				}
				seen[n] = true
			}
		}
	}
	// which paths were disturbed by removes / copies of ancestors (then clause (b) and (a) do not apply to them)
	removedAncestor := func(path string) bool {
		for _, ev := range events {
			if (ev.op.Kind == "Remove" || ev.op.Kind == "RemoveAll") && (ev.op.Path == path || strings.HasPrefix(path, ev.op.Path+"/")) {
				return true
			}
			// wrong-kind operations: a directory made at the file's own path, a file written where
			// one of its directories was: the per-file register clauses do not apply to that path
			if ev.op.Kind == "MkdirAll" && (ev.op.Path == path || strings.HasPrefix(ev.op.Path, path+"/")) {
				return true
			}
			if (ev.op.Kind == "WriteFile" || ev.op.Kind == "Writer") && strings.HasPrefix(path, ev.op.Path+"/") {
				return true
			}
		}
		return false
	}
	// (b) regular register per file
	writes := map[string][]c09Event{}
	for _, ev := range events {
		if (ev.op.Kind == "WriteFile" || ev.op.Kind == "Writer") && ev.err == nil {
			writes[ev.op.Path] = append(writes[ev.op.Path], ev)
		}
	}
	initial := map[string]bool{}
	for _, f := range in.Initial {
		initial[f] = true
	}
	for _, ev := range events {
		if (ev.op.Kind != "ReadFile" && ev.op.Kind != "Reader") || ev.err != nil {
			continue
		}
		path := ev.op.Path
		got := string(ev.data)
		// complete value?
		var src *c09Event
		ws := writes[path]
		for i := range ws {
			if ws[i].op.Val == got {
				src = &ws[i]
			}
		}
		isInit := initial[path] && got == in.initVal(path)
		if src == nil && !isInit {
			return failf("C09/torn-read", ev.op.Kind, "client %d: %s(%q) returned %s, which is not a complete value ever written to that path (written: %v)", ev.client, ev.op.Kind, path, q(got), c09Vals(ws))
		}
		if removedAncestor(path) {
			continue
		}
		// not overwritten by a write that completed before this read began
		srcRet := 0 // initial value: "written" before everything
		if src != nil {
			if src.call > ev.ret {
				return failf("C09/read-from-the-future", ev.op.Kind, "client %d read %s from %q before that value's write began", ev.client, q(got), path)
			}
			srcRet = src.ret
		}
		for i := range ws {
			w := ws[i]
			if src != nil && w.call == src.call {
				continue
			}
			// w began after the source write finished and finished before the read began => source value is stale
			if w.call > srcRet && w.ret < ev.call {
				return failf("C09/stale-read", ev.op.Kind, "client %d: %s(%q) returned %s although the write of %s had completed before the read began (and after %s was written)", ev.client, ev.op.Kind, path, q(got), q(w.op.Val), q(got))
			}
		}
	}
	// final content is one of the values written (or initial)
	for _, path := range append(append([]string{}, c09Files...), privatePaths(in)...) {
		if removedAncestor(path) {
			continue
		}
		cur, ok := final[path]
		ws := writes[path]
		if !ok {
			if len(ws) > 0 || initial[path] {
				return failf("C09/lost-write", "final", "%q was written successfully (%v) and never removed, but does not exist at the end", path, c09Vals(ws))
			}
			continue
		}
		cur = strings.TrimPrefix(cur, "F:")
		okVal := initial[path] && cur == in.initVal(path) && len(ws) == 0
		for _, w := range ws {
			if w.op.Val == cur {
				okVal = true
			}
		}
		// copies may also have created the node
		if !okVal && !strings.HasPrefix(path, "copy") {
			return failf("C09/final-value-not-written", "final", "%q ends with %s which is none of the values written to it (%v)", path, q(cur), c09Vals(ws))
		}
		// (a) single-writer paths end with that client's last write
		clients := map[int]bool{}
		for _, w := range ws {
			clients[w.client] = true
		}
		if len(clients) == 1 && len(ws) > 0 {
			last := ws[0]
			for _, w := range ws {
				if w.call > last.call {
					last = w
				}
			}
			if cur != last.op.Val {
				return failf("C09/own-write-lost", "final", "only client %d wrote %q; its last value was %s but the file ends with %s", last.client, path, q(last.op.Val), q(cur))
			}
		}
	}
	// a copy holds a complete value of its source: whatever was stored under copy<N> must be
	// one of the complete values ever written to (or initially in) some shared file
	complete := map[string]bool{}
	for _, f := range in.Initial {
		complete[in.initVal(f)] = true
	}
	for _, ws := range writes {
		for _, w := range ws {
			complete[w.op.Val] = true
		}
	}
	for _, p := range sortedNamesS(final) {
		if strings.HasPrefix(p, "copy") && strings.HasPrefix(final[p], "F:") {
			if v := strings.TrimPrefix(final[p], "F:"); !complete[v] {
				return failf("C09/torn-copy", "final", "%q (made by Copy) holds %s, which is not a complete value ever written to any source file", p, q(v))
			}
		}
	}
	// (c) concurrent creations leave one node: the walk found unique names everywhere (checked by WalkFS)
	return nil
}

func privatePaths(in *c09In) []string {
	set := map[string]bool{}
	for _, ops := range in.Clients {
		for _, op := range ops {
			if strings.HasPrefix(op.Path, "private") {
				set[op.Path] = true
			}
		}
	}
	out := sortedNames(set)
	return out
}

func c09Vals(ws []c09Event) []string {
	var out []string
	for _, w := range ws {
		out = append(out, q(w.op.Val))
	}
	sort.Strings(out)
	return out
}

func c09Shrink(inI interface{}) []interface{} {
	in := inI.(*c09In)
	var out []interface{}
	cp := func() *c09In {
		c := &c09In{Initial: append([]string(nil), in.Initial...), BigPath: in.BigPath}
		for _, ops := range in.Clients {
			c.Clients = append(c.Clients, append([]c09Op(nil), ops...))
		}
		return c
	}
	for i := range in.Clients {
		if len(in.Clients) > 2 {
			c := cp()
			c.Clients = append(c.Clients[:i], c.Clients[i+1:]...)
			out = append(out, c)
		}
		for j := range in.Clients[i] {
			c := cp()
			c.Clients[i] = append(c.Clients[i][:j], c.Clients[i][j+1:]...)
			out = append(out, c)
		}
	}
	for i := range in.Initial {
		c := cp()
		c.Initial = append(c.Initial[:i], c.Initial[i+1:]...)
		out = append(out, c)
	}
	return out
}

var _ = bytes.Equal

func init() {
	register(&Prop{
		ID:     "C09",
		Level:  "exploration",
		Gen:    c09Gen,
		New:    func() interface{} { return &c09In{} },
		Run:    c09Run,
		Shrink: c09Shrink,
		Rule: "one case = 2-4 clients x 1-6 operations (WriteFile with globally unique values, two-chunk Writer, ReadFile, Reader, MkdirAll, Copy, Remove, RemoveAll, ReadDir, IsExist) on 5 shared files in 2 shared directories (+ private files; in one run of six every value of one file is 65-72 KB) x one seeded schedule; invoke/return stamped with a global event counter; oracle: regular register per file, own-write retention, unique names, complete values, no panic/deadlock, happens-before probe on the directory index maps; " +
			"non-trivial = a scheduling decision with more than one runnable task; distinct = distinct (input, decision sequence)",
		Real:        []string{"filesystem/filespace/memfs (Filespace, Dir, File, FileHandler)"},
		Stub:        []string{"sync.RWMutex -> simrt", "scheduler, clock"},
		Assumptions: []string{"full linearizability of the tree is not demanded: the statement does not make directory copies or removes atomic", "clauses (a) and (b) are not applied to a path one of whose ancestors (or itself) was removed by some client in the same run"},
	})
}
