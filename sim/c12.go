package simcheck

import (
	"fmt"
	"strings"

	"github.com/goatcms/goatcore/app"
	"github.com/goatcms/goatcore/app/scope"
	"github.com/goatcms/goatcore/app/scope/contextscope"
	"simrt"
)

// C12 — scope failure signalling is safe from any number of goroutines.
//
// Shape 0: 2-6 tasks hammer one scope (plain / child sharing the parent's context /
// child with an isolated context) with AppendError(unique), Kill, Stop, IsDone, Err, Errors.
// Shape 1: a task creates and closes children of a scope while / after other tasks end it.

type c12Op struct {
	Op string `json:"op"` // err kill stop isdone err? errors yield child
}

type c12In struct {
	Kind     int       `json:"kind"`  // 0 plain, 1 shared child, 2 isolated child
	Shape    int       `json:"shape"` // 0 hammer, 1 child creation racing with the end of the parent
	Tasks    [][]c12Op `json:"tasks"`
	ChildIso bool      `json:"child_isolated"` // shape 1: created children have an isolated context
	Observers int      `json:"observers,omitempty"` // shape 0: tasks blocked on Done() that read Err() when woken
}

func c12Gen(r *Rand, tier string) interface{} {
	in := &c12In{Kind: r.Intn(3), Shape: r.Intn(3) / 2}
	ops := []string{"err", "err", "kill", "stop", "isdone", "err?", "errors", "yield"}
	n := 2 + r.Intn(3)
	if tier == "thorough" {
		n = 2 + r.Intn(5)
	}
	for t := 0; t < n; t++ {
		var l []c12Op
		k := 1 + r.Intn(4)
		for i := 0; i < k; i++ {
			l = append(l, c12Op{ops[r.Intn(len(ops))]})
		}
		in.Tasks = append(in.Tasks, l)
	}
	if in.Shape == 0 && r.Chance(1, 2) {
		in.Observers = 1 + r.Intn(2)
	}
	if in.Shape == 1 {
		in.Kind = 0
		in.ChildIso = r.Chance(1, 4)
		// at least one task creates children
		ct := r.Intn(n)
		k := 1 + r.Intn(2)
		var l []c12Op
		for i := 0; i < r.Intn(3); i++ {
			l = append(l, c12Op{"yield"})
		}
		for i := 0; i < k; i++ {
			// the new child is closed at once, or stopped / killed / failed first
			l = append(l, c12Op{[]string{"child", "child", "child-stop", "child-kill", "child-err"}[r.Intn(5)]})
		}
		in.Tasks[ct] = l
	}
	return in
}

type c12Err struct{ s string }

func (e *c12Err) Error() string { return e.s }

func c12Run(inI interface{}, env *Env) *Failure {
	in := inI.(*c12In)
	var (
		parent, target app.Scope
		appended       []error
		signalled      bool // err/kill/stop executed on target
		failed         bool // err/kill executed on target
		post           *Failure
		childClosed    int
		observed       int
	)
	res := env.Sim(SimOpts{MaxSteps: 20000, FairSteps: 20000}, func() {
		parent = scope.New(scope.Params{Name: "p"})
		target = parent
		switch in.Kind {
		case 1:
			target = scope.NewChild(parent, scope.ChildParams{Name: "shared"})
		case 2:
			target = scope.NewChild(parent, scope.ChildParams{Name: "iso", ContextScope: contextscope.NewIsolated(parent.BaseContextScope())})
		}
		// done observers: blocked on Done(); when the signal arrives they ask the accessors.
		// If no actor ever calls Stop, the signal can only have been caused by an appended
		// error or a kill, so the accessors must already report one.
		hasStop := false
		for _, ops := range in.Tasks {
			for _, op := range ops {
				if op.Op == "stop" {
					hasStop = true
				}
			}
		}
		quit := make(chan struct{})
		var obsWG simrt.WaitGroup
		obsWG.Add(in.Observers)
		for oi := 0; oi < in.Observers; oi++ {
			oi := oi
			simrt.GoNamed(fmt.Sprintf("observer%d", oi), func() {
				defer obsWG.Done()
				i, _, _ := simrt.Select(false, simrt.RecvCase(target.Done()), simrt.RecvCase(quit))
				if i != 0 {
					return
				}
				observed++
				if e, n := target.Err(), len(target.Errors()); !hasStop && (e == nil || n == 0) && post == nil {
					post = failf("C12/done-without-error", "", "a task woken by the done signal read Err()=%v and %d Errors() although nothing but AppendError/Kill can have ended this scope", e, n)
				}
			})
		}
		var wg simrt.WaitGroup
		wg.Add(len(in.Tasks))
		for ti, ops := range in.Tasks {
			ti, ops := ti, ops
			simrt.GoNamed(fmt.Sprintf("actor%d", ti), func() {
				defer wg.Done()
				for oi, op := range ops {
					switch op.Op {
					case "err":
						e := &c12Err{fmt.Sprintf("e%d-%d", ti, oi)}
						signalled, failed = true, true
						if oi%2 == 1 {
							// several errors from a buffer the caller goes on using
							e2 := &c12Err{fmt.Sprintf("e%d-%d-second", ti, oi)}
							buf := make([]error, 2, 8)
							buf[0], buf[1] = e, e2
							if oi%4 == 1 {
								target.AppendError(buf...)
							} else {
								// straight into the scope's context object (the layer the scope itself reports to)
								target.BaseContextScope().AppendError(buf...)
							}
							buf[0], buf[1] = &c12Err{"caller-reused-its-buffer"}, nil
							buf = append(buf, &c12Err{"caller-reused-its-buffer"})
							appended = append(appended, e, e2)
							break
						}
						target.AppendError(e)
						appended = append(appended, e)
					case "kill":
						signalled, failed = true, true
						target.Kill()
					case "stop":
						signalled = true
						target.Stop()
					case "isdone":
						_ = target.IsDone()
					case "err?":
						_ = target.Err()
					case "errors":
						_ = target.Errors()
					case "yield":
						simrt.Yield()
					case "child", "child-stop", "child-kill", "child-err":
						cp := scope.ChildParams{Name: "c"}
						if in.ChildIso {
							cp.ContextScope = contextscope.NewIsolated(target.BaseContextScope())
						}
						c := scope.NewChild(target, cp)
						simrt.Yield()
						// signalling the child of a (possibly already done) scope is as safe as closing it
						switch op.Op {
						case "child-stop":
							c.Stop()
							c.Stop()
						case "child-kill":
							c.Kill()
						case "child-err":
							c.AppendError(&c12Err{fmt.Sprintf("child-e%d-%d", ti, oi)})
							if !in.ChildIso {
								signalled, failed = true, true // a child sharing the context fails the parent too
							}
						}
						if op.Op == "child-kill" && !in.ChildIso {
							signalled, failed = true, true
						}
						if op.Op == "child-stop" && !in.ChildIso {
							signalled = true
						}
						_ = c.Close()
						childClosed++
					}
				}
			})
		}
		wg.Wait()
		simrt.PreNB(quit)
		close(quit)
		obsWG.Wait()
		if post != nil {
			return
		}
		// quiescence reached: judge
		has := func(list []error, e error) bool {
			for _, x := range list {
				if x == e {
					return true
				}
			}
			return false
		}
		for _, e := range appended {
			if !has(target.Errors(), e) {
				post = failf("C12/error-lost", "", "appended error %v is not in Errors() = %v", e, target.Errors())
				return
			}
			if in.Kind == 1 && !has(parent.Errors(), e) {
				post = failf("C12/error-lost", "shared-child", "error %v appended through a child sharing the context is not in the parent's Errors()", e)
				return
			}
		}
		if signalled && !target.IsDone() {
			post = failf("C12/not-done", "", "scope was killed/stopped/failed but IsDone() is false")
			return
		}
		if failed && target.Err() == nil {
			post = failf("C12/error-lost", "err-nil", "errors were appended / scope was killed but Err() is nil")
			return
		}
		// every appended error is reported by Err() as well (whenever Err was asked before)
		reports := func(err error, e error) bool { return err != nil && strings.Contains(err.Error(), e.Error()) }
		for _, e := range appended {
			if !reports(target.Err(), e) {
				post = failf("C12/error-lost", "err-incomplete", "appended error %v is in Errors() but not reported by Err() = %q", e, target.Err())
				return
			}
		}
		if !failed && target.Err() != nil {
			post = failf("C12/spurious-error", "", "nothing failed but Err() = %v", target.Err())
			return
		}
		if in.Kind == 2 {
			// an isolated child fails alone
			if len(parent.Errors()) != 0 || parent.IsDone() {
				post = failf("C12/isolation", "", "signals on an isolated child reached the parent: errors=%v done=%v", parent.Errors(), parent.IsDone())
				return
			}
		}
		// waiting on / closing the scope reports the failure
		if in.Kind != 0 {
			err := target.Close()
			if failed && err == nil {
				post = failf("C12/close-reports", "child", "child Close() returned nil although errors were appended")
				return
			}
		}
		werr := parent.Wait()
		cerr := parent.Close()
		pfailed := failed && in.Kind != 2
		if pfailed && (werr == nil || cerr == nil) {
			post = failf("C12/close-reports", "parent", "parent Wait()=%v Close()=%v although errors were appended", werr, cerr)
			return
		}
		if pfailed {
			for _, e := range appended {
				if !reports(werr, e) || !reports(cerr, e) {
					post = failf("C12/close-reports", "incomplete", "appended error %v is not reported by the parent's Wait() = %q / Close() = %q", e, werr, cerr)
					return
				}
			}
		}
		if !pfailed && (werr != nil || cerr != nil) {
			post = failf("C12/spurious-error", "parent", "nothing failed in the parent but Wait()=%v Close()=%v", werr, cerr)
			return
		}
	})
	if res.Decisions > 0 {
		env.Count("nontrivial")
	}
	if observed > 0 {
		env.CountN("probe.observer-woken-by-done", observed)
	}
	if childClosed > 0 {
		env.CountN("probe.child-created-and-closed", childClosed)
	}
	if f := env.SimFailure("C12", res); f != nil {
		return f
	}
	return post
}

func c12Shrink(inI interface{}) []interface{} {
	in := inI.(*c12In)
	var out []interface{}
	cp := func() *c12In {
		c := *in
		c.Tasks = nil
		for _, t := range in.Tasks {
			c.Tasks = append(c.Tasks, append([]c12Op(nil), t...))
		}
		return &c
	}
	for i := range in.Tasks {
		if len(in.Tasks) > 1 {
			c := cp()
			c.Tasks = append(c.Tasks[:i], c.Tasks[i+1:]...)
			out = append(out, c)
		}
		for j := range in.Tasks[i] {
			c := cp()
			c.Tasks[i] = append(c.Tasks[i][:j], c.Tasks[i][j+1:]...)
			out = append(out, c)
		}
	}
	if in.Kind != 0 {
		c := cp()
		c.Kind = 0
		out = append(out, c)
	}
	if in.Observers > 0 {
		c := cp()
		c.Observers--
		out = append(out, c)
	}
	return out
}

func init() {
	register(&Prop{
		ID:     "C12",
		Level:  "exploration",
		Gen:    c12Gen,
		New:    func() interface{} { return &c12In{} },
		Run:    c12Run,
		Shrink: c12Shrink,
		Rule: "one case = (scope kind, 2-6 actor scripts over AppendError/Kill/Stop/IsDone/Err/Errors or child create+close; 0-2 done observers blocked on Done() that read the accessors when woken) x one seeded schedule; " +
			"non-trivial = at least one scheduling decision with more than one runnable task; distinct = distinct (input, decision sequence)",
		Real:        []string{"app/scope (Scope, NewChild)", "app/scope/contextscope (ContextScope, Isolated incl. its watcher goroutine)", "app/scope/eventscope", "app/scope/datascope"},
		Stub:        []string{"sync primitives -> simrt", "scheduler -> seeded baton scheduler", "clock -> fake clock"},
		Assumptions: []string{"no actor touches a scope object after Close was invoked on it (Scope refuses that loudly by design)"},
	})
}
