package simcheck

import (
	"simrt"
	"bytes"
	"fmt"
	"strings"

	"github.com/goatcms/goatcore/filesystem"
	"github.com/goatcms/goatcore/filesystem/fshelper"
)

// C04 — streams and cross-filespace copies are byte-exact and replace old content.
//
// Shape 0 (stream): on one backend, a path with a prior state (absent / shorter / equal /
// longer file, written through WriteFile or Writer) gets a Writer, random chunks (empty ones
// included), Close; ReadFile and Reader (random buffer sizes, optional legal short reads)
// must give back exactly the concatenation.
// Shape 1 (copy): a random tree in a source backend is copied to a destination backend
// (pre-populated with longer conflicting files) with StreamCopy / Copier / Copy. A dry run
// counts the I/O positions on both sides; then EVERY position x applicable fault kind is
// injected once (whole copy re-executed under the dry run's schedule): whenever the helper
// returns nil the destination must be a complete byte-exact copy.

type c04In struct {
	Shape int `json:"shape"`
	// stream
	Backend  string `json:"backend,omitempty"`
	Prior    string `json:"prior,omitempty"` // "-" = absent
	PriorVia string `json:"prior_via,omitempty"`
	Data     string `json:"data,omitempty"`
	Chunks   []int  `json:"chunks,omitempty"`
	ReadBufs []int  `json:"read_bufs,omitempty"`
	Short    bool   `json:"short_reads,omitempty"`
	// copy
	Src    string            `json:"src,omitempty"`
	Dst    string            `json:"dst,omitempty"`
	Tree   treeSpec          `json:"tree,omitempty"`
	DstPre map[string]string `json:"dst_pre,omitempty"`
	Helper string            `json:"helper,omitempty"` // StreamCopy | Copier | Copy
	Sub    string            `json:"sub,omitempty"`    // Copier / StreamCopy: the node copied
	Inner  bool              `json:"inner,omitempty"`  // fault layer below encryption
}

func genContent(r *Rand, tag string) string {
	n := r.Pick(0, 1, 2, 17, 100, 1000, 4096)
	if r.Chance(1, 30) {
		n = r.Pick(32768, 32769, 70000) // around and past io.Copy's buffer
	}
	if n == 0 {
		return ""
	}
	var sb strings.Builder
	sb.WriteString(tag)
	for sb.Len() < n {
		sb.WriteByte(byte('a' + r.Intn(26)))
	}
	return sb.String()[:max(n, len(tag))]
}

func c04Gen(r *Rand, tier string) interface{} {
	in := &c04In{}
	if r.Chance(1, 12) {
		// two streams onto one path at the same time (memory backends): the file ends as
		// exactly one of the two contents, and a reader sees exactly what is stored
		in.Shape = 2
		in.Backend = []string{"mem", "cache-mem"}[r.Intn(2)]
		in.Data = genContent(r, "ONE:")
		in.Prior = genContent(r, "TWO:") + "-second-writer"
		for k := r.Intn(4); k > 0; k-- {
			in.Chunks = append(in.Chunks, r.Pick(1, 3, 16, 500))
		}
		return in
	}
	if r.Chance(2, 5) {
		in.Shape = 0
		in.Backend = backendKinds[r.Intn(len(backendKinds))]
		in.Data = genContent(r, "NEW:")
		switch r.Intn(5) {
		case 0:
			in.Prior = "-"
		case 1:
			in.Prior = "old"
		case 2:
			in.Prior = strings.Repeat("o", len(in.Data))
		default:
			in.Prior = strings.Repeat("OLD-CONTENT-", 1+len(in.Data)/6)
		}
		in.PriorVia = []string{"WriteFile", "Writer"}[r.Intn(2)]
		for k := r.Intn(7); k > 0; k-- {
			in.Chunks = append(in.Chunks, r.Pick(0, 1, 3, 16, 500))
		}
		if len(in.Data) > 66000 && r.Chance(1, 2) {
			in.Chunks = append([]int{r.Pick(65536, 66000)}, in.Chunks...) // a first chunk past 64 KiB
		}
		for k := r.Intn(3); k > 0; k-- {
			in.ReadBufs = append(in.ReadBufs, r.Pick(0, 1, 2, 7, 64, 5000))
		}
		in.Short = r.Chance(1, 3)
		return in
	}
	in.Shape = 1
	in.Src = backendKinds[r.Intn(len(backendKinds))]
	in.Dst = backendKinds[r.Intn(len(backendKinds))]
	in.Tree = treeSpec{Files: map[string]string{}}
	n := r.Intn(9)
	dirs := []string{""}
	used := map[string]bool{}
	for i := 0; i < n; i++ {
		parent := dirs[r.Intn(len(dirs))]
		p := strings.TrimPrefix(parent+"/"+[]string{"a", "b", "c", "d"}[r.Intn(4)], "/")
		if used[p] || strings.Count(p, "/") >= 3 {
			continue
		}
		used[p] = true
		if r.Chance(1, 3) {
			in.Tree.Dirs = append(in.Tree.Dirs, p)
			dirs = append(dirs, p)
		} else {
			in.Tree.Files[p] = genContent(r, fmt.Sprintf("S%d:", i))
		}
	}
	in.DstPre = map[string]string{}
	for _, p := range sortedNamesS(in.Tree.Files) { // sorted: the draws must not depend on map order
		if r.Chance(1, 3) {
			src := in.Tree.Files[p]
			switch r.Intn(3) {
			case 0:
				in.DstPre[p] = "PRE-EXISTING-LONGER-" + src + "-TAIL"
			case 1:
				// same length, other bytes: size alone must not make the copy look done
				in.DstPre[p] = strings.Repeat("~", len(src))
			default:
				in.DstPre[p] = "P"
			}
		}
	}
	in.Helper = []string{"Copy", "Copy", "Copier", "StreamCopy"}[r.Intn(4)]
	files := sortedNamesS(in.Tree.Files)
	switch in.Helper {
	case "StreamCopy":
		if len(files) == 0 {
			in.Tree.Files["zfile"] = genContent(r, "S:")
			files = []string{"zfile"}
		}
		in.Sub = files[r.Intn(len(files))]
	case "Copier":
		all := append(append([]string{}, files...), in.Tree.Dirs...)
		if len(all) == 0 {
			in.Tree.Files["zfile"] = genContent(r, "S:")
			all = []string{"zfile"}
		}
		in.Sub = all[r.Intn(len(all))]
	}
	in.Inner = r.Chance(1, 3)
	in.Short = r.Chance(1, 3)
	return in
}

func c04Stream(in *c04In, env *Env) *Failure {
	var post *Failure
	key := in.Backend + "/prior=" + priorClass(in.Prior, in.Data)
	res := env.Sim(SimOpts{MaxSteps: 50000, FairSteps: 20000}, func() {
		st := &FaultState{FailAt: map[int]string{}}
		if in.Short {
			st.ShortRead = func() int { return 1 + env.Draw(7) }
		}
		b := newBackend(in.Backend, st, false)
		defer b.cleanup()
		path := "dir/file"
		if err := b.clean.MkdirAll("dir", filesystem.DefaultUnixDirMode); err != nil {
			panic(harnessTrouble{"mkdir: " + err.Error()})
		}
		if in.Prior != "-" {
			op := FsOp{Kind: in.PriorVia, Path: path, Data: in.Prior}
			if r := RunFsOp(b.clean, op); r.Err != nil || r.Panic != "" {
				post = failf("C04/stream-write-refused", key, "prior state %s failed: %v %s", op.Kind, r.Err, r.Panic)
				return
			}
		}
		// no write fault is planned in this shape: the stream is written through the backend's
		// own Writer (not the fault layer's wrapper), so that whatever optional methods it
		// offers (ReadFrom, WriteString) are reachable for io.Copy / io.WriteString, as for a caller
		r := RunFsOp(b.clean, FsOp{Kind: "Writer", Path: path, Data: in.Data, Chunks: in.Chunks})
		if r.Panic != "" {
			post = failf("C04/panic", key, "Writer: %s", r.Panic)
			return
		}
		if r.Err != nil {
			post = failf("C04/stream-write-refused", key, "Writer/Write/Close failed without any fault: %v", r.Err)
			return
		}
		for _, kind := range []string{"ReadFile", "Reader"} {
			rr := RunFsOp(b.fs, FsOp{Kind: kind, Path: path, Chunks: in.ReadBufs})
			if rr.Panic != "" {
				post = failf("C04/panic", key, "%s: %s", kind, rr.Panic)
				return
			}
			if rr.Err != nil {
				post = failf("C04/stream-read-failed", key+"/"+kind, "%s failed without any fault: %v", kind, rr.Err)
				return
			}
			if !bytes.Equal(rr.Data, []byte(in.Data)) {
				post = failf("C04/stream-not-exact", key+"/"+kind, "wrote chunks %v of %s over prior %s; %s returns %s", in.Chunks, short(in.Data), short(in.Prior), kind, short(string(rr.Data)))
				return
			}
		}
	})
	if f := env.SimFailure("C04", res); f != nil {
		return f
	}
	return post
}

func priorClass(prior, data string) string {
	switch {
	case prior == "-":
		return "absent"
	case len(prior) < len(data):
		return "shorter"
	case len(prior) == len(data):
		return "equal"
	}
	return "longer"
}

type c04Exec struct {
	err       error
	positions int
	trace     []string
	fired     []*ErrInjected
	fail      *Failure
}

// c04Copy executes the copy once; failAt >= 0 injects one fault.
func c04Copy(in *c04In, env *Env, plan map[int]string) (ex c04Exec) {
	failAt := -1
	if plan != nil {
		failAt = 0
	}
	key := "dst:" + in.Dst
	res := env.Sim(SimOpts{MaxSteps: 100000, FairSteps: 30000}, func() {
		st := &FaultState{FailAt: map[int]string{}, KeepTrace: failAt < 0}
		st.OnFire = func(k string) { env.Count("fault." + k) }
		if in.Short {
			st.ShortRead = func() int { return 1 + env.Draw(64) }
		}
		src := newBackend(in.Src, st, in.Inner)
		defer src.cleanup()
		dst := newBackend(in.Dst, st, in.Inner)
		defer dst.cleanup()
		if err := populate(src.clean, nil, in.Tree); err != nil {
			panic(harnessTrouble{"populate source (" + in.Src + "): " + err.Error()})
		}
		for _, p := range sortedNamesS(in.DstPre) {
			if err := dst.clean.WriteFile(p, []byte(in.DstPre[p]), filesystem.DefaultUnixFileMode); err != nil {
				panic(harnessTrouble{"populate destination (" + in.Dst + "): " + err.Error()})
			}
		}
		if in.Helper == "StreamCopy" || in.Helper == "Copier" {
			// precondition of a single-node copy: the destination's parent exists
			if i := strings.LastIndex(in.Sub, "/"); i > 0 {
				if err := dst.clean.MkdirAll(in.Sub[:i], filesystem.DefaultUnixDirMode); err != nil {
					panic(harnessTrouble{"destination parent: " + err.Error()})
				}
			}
		}
		st.Pos = 0
		st.Trace = nil
		for pos, kind := range plan {
			st.FailAt[pos] = kind
		}
		func() {
			defer func() {
				if p := recover(); p != nil {
					if isAbortOrTrouble(p) {
						panic(p)
					}
					ex.fail = failf("C04/panic", key, "%s panicked: %v", in.Helper, p)
				}
			}()
			switch in.Helper {
			case "Copy":
				ex.err = fshelper.Copy(src.fs, dst.fs, nil)
			case "Copier":
				ex.err = fshelper.Copier{SrcFS: src.fs, SrcPath: in.Sub, DestFS: dst.fs, DestPath: in.Sub}.Do()
			case "StreamCopy":
				ex.err = fshelper.StreamCopy(src.fs, dst.fs, in.Sub)
			}
		}()
		ex.positions = st.Pos
		ex.trace = st.Trace
		ex.fired = st.Fired
		st.FailAt = map[int]string{}
		if ex.fail != nil {
			return
		}
		if failAt < 0 && ex.err != nil {
			ex.fail = failf("C04/copy-failed-without-fault", key, "%s returned %v with no fault injected", in.Helper, ex.err)
			return
		}
		if ex.err != nil {
			return // reported: nothing more is promised
		}
		// err == nil => the destination is a complete, byte-exact copy
		inScope := func(p string) bool {
			return in.Helper == "Copy" || p == in.Sub || strings.HasPrefix(p, in.Sub+"/")
		}
		what := "fault-free"
		if len(ex.fired) > 0 {
			what = fmt.Sprintf("after %s at %s", ex.fired[0].Kind, ex.fired[0].Op)
		}
		for _, p := range sortedNamesS(in.Tree.Files) {
			if !inScope(p) {
				continue
			}
			got, err := dst.clean.ReadFile(p)
			if err != nil {
				ex.fail = failf("C04/incomplete-copy-reported-ok", key, "%s returned nil (%s) but %q cannot be read from the destination: %v", in.Helper, what, p, err)
				return
			}
			if !bytes.Equal(got, []byte(in.Tree.Files[p])) {
				ex.fail = failf("C04/copy-not-exact", key, "%s returned nil (%s) but %q holds %s, the source holds %s", in.Helper, what, p, short(string(got)), short(in.Tree.Files[p]))
				return
			}
		}
		for _, d := range in.Tree.Dirs {
			if inScope(d) && !dst.clean.IsDir(d) {
				ex.fail = failf("C04/incomplete-copy-reported-ok", key, "%s returned nil (%s) but directory %q is missing in the destination", in.Helper, what, d)
				return
			}
		}
	})
	if f := env.SimFailure("C04", res); f != nil && ex.fail == nil {
		ex.fail = f
	}
	return
}

func isAbortOrTrouble(p interface{}) bool {
	if _, ok := p.(harnessTrouble); ok {
		return true
	}
	return simrtIsAbort(p)
}

func c04Run(inI interface{}, env *Env) *Failure {
	in := inI.(*c04In)
	env.Count("nontrivial")
	if in.Shape == 0 {
		return c04Stream(in, env)
	}
	if in.Shape == 2 {
		return c04TwoWriters(in, env)
	}
	mark := env.Mark()
	dry := c04Copy(in, env, nil)
	seg := env.Segment(mark)
	if dry.fail != nil {
		return dry.fail
	}
	env.CountN("copy.io-positions", dry.positions)
	step := 1
	if dry.positions > 80 {
		step = 1 + dry.positions/80
	}
	for pos := env.Draw(step); pos < dry.positions; pos += step {
		kinds := []string{""}
		if pos < len(dry.trace) && strings.HasPrefix(dry.trace[pos], "Write ") {
			kinds = []string{"", "torn"}
		}
		for _, k := range kinds {
			var ex c04Exec
			env.WithReplay(seg, func() { ex = c04Copy(in, env, map[int]string{pos: k}) })
			env.Count("faulted-executions")
			if len(ex.fired) == 0 {
				env.Count("probe.faulted-position-not-reached")
			}
			if ex.err == nil && len(ex.fired) > 0 {
				env.Count("probe.copy-succeeded-despite-fault")
			}
			if ex.fail != nil {
				ex.fail.Msg = fmt.Sprintf("[fault at position %d] %s", pos, ex.fail.Msg)
				return ex.fail
			}
		}
	}
	// a few plans with two or three faults (the first may be survived by a retry-free helper
	// only by reporting it; later ones must not turn the report into a success)
	for k := 0; k < 3 && dry.positions > 1; k++ {
		plan := map[int]string{}
		for j := 0; j < 2+env.Draw(2); j++ {
			pos := env.Draw(dry.positions)
			kind := ""
			if pos < len(dry.trace) && strings.HasPrefix(dry.trace[pos], "Write ") && env.Draw(2) == 1 {
				kind = "torn"
			}
			plan[pos] = kind
		}
		var ex c04Exec
		env.WithReplay(seg, func() { ex = c04Copy(in, env, plan) })
		env.Count("multi-fault-executions")
		if ex.fail != nil {
			ex.fail.Msg = fmt.Sprintf("[faults at positions %v] %s", plan, ex.fail.Msg)
			return ex.fail
		}
	}
	return nil
}

func c04Shrink(inI interface{}) []interface{} {
	in := inI.(*c04In)
	var out []interface{}
	cp := func() *c04In {
		c := *in
		c.Tree = treeSpec{Dirs: append([]string(nil), in.Tree.Dirs...), Files: map[string]string{}}
		for k, v := range in.Tree.Files {
			c.Tree.Files[k] = v
		}
		c.DstPre = map[string]string{}
		for k, v := range in.DstPre {
			c.DstPre[k] = v
		}
		c.Chunks = append([]int(nil), in.Chunks...)
		c.ReadBufs = append([]int(nil), in.ReadBufs...)
		return &c
	}
	if in.Shape == 0 {
		if len(in.Chunks) > 0 {
			c := cp()
			c.Chunks = nil
			out = append(out, c)
		}
		if len(in.ReadBufs) > 0 {
			c := cp()
			c.ReadBufs = nil
			out = append(out, c)
		}
		if len(in.Data) > 8 {
			c := cp()
			c.Data = in.Data[:8]
			out = append(out, c)
		}
		if len(in.Prior) > 12 {
			c := cp()
			c.Prior = in.Prior[:12]
			out = append(out, c)
		}
		if in.Short {
			c := cp()
			c.Short = false
			out = append(out, c)
		}
		return out
	}
	for _, p := range sortedNamesS(in.Tree.Files) {
		if p == in.Sub {
			continue
		}
		c := cp()
		delete(c.Tree.Files, p)
		delete(c.DstPre, p)
		out = append(out, c)
	}
	for i, d := range in.Tree.Dirs {
		used := d == in.Sub
		for p := range in.Tree.Files {
			if strings.HasPrefix(p, d+"/") {
				used = true
			}
		}
		for _, d2 := range in.Tree.Dirs {
			if strings.HasPrefix(d2, d+"/") {
				used = true
			}
		}
		if !used {
			c := cp()
			c.Tree.Dirs = append(c.Tree.Dirs[:i], c.Tree.Dirs[i+1:]...)
			out = append(out, c)
		}
	}
	for _, p := range sortedNamesS(in.DstPre) {
		c := cp()
		delete(c.DstPre, p)
		out = append(out, c)
	}
	for _, p := range sortedNamesS(in.Tree.Files) {
		if len(in.Tree.Files[p]) > 6 {
			c := cp()
			c.Tree.Files[p] = in.Tree.Files[p][:6]
			out = append(out, c)
		}
	}
	if in.Short {
		c := cp()
		c.Short = false
		out = append(out, c)
	}
	if in.Inner {
		c := cp()
		c.Inner = false
		out = append(out, c)
	}
	for _, side := range []string{"src", "dst"} {
		c := cp()
		if side == "src" && in.Src != "mem" {
			c.Src = "mem"
			out = append(out, c)
		}
		if side == "dst" && in.Dst != "mem" {
			c.Dst = "mem"
			out = append(out, c)
		}
	}
	return out
}

func init() {
	register(&Prop{
		ID:     "C04",
		Level:  "fault_enumeration",
		Gen:    c04Gen,
		New:    func() interface{} { return &c04In{} },
		Run:    c04Run,
		Shrink: c04Shrink,
		Rule: "one case = stream shape (backend x prior state absent/shorter/equal/longer x content x chunking x read buffers x legal short reads) or copy shape (source backend x destination backend over memory, disk, encrypted with both ciphers, cache; tree <=8 nodes, files up to 4 KiB, destination pre-populated with longer, equally long and shorter files; helper StreamCopy/Copier/Copy); for a copy a fault-free dry run counts the I/O positions on both sides and then every position (every k-th above 80) x applicable kind (op-error, read-error, write-error, torn-write, close-error; fault layer above the stack or below the encryption) is injected once under the dry run's schedule; tree copies run the real fsloop under the seeded scheduler; " +
			"every case is non-trivial; distinct = distinct input",
		Real:        []string{"filesystem/fshelper (StreamCopy, Copier, Copy)", "filesystem/fsloop + workers/jobsync", "memfs", "diskfs on a private directory of the real file system", "encryptfs with aesgcm256cfs and extcfs", "fscache"},
		Stub:        []string{"FaultFS wrappers", "sync primitives, scheduler, clock (simrt)", "crypto/rand nonces are real (no oracle depends on their value)"},
		Assumptions: []string{"under a fault the only clause judged is: helper returned nil => the destination is a complete byte-exact copy (never the converse)", "disk-level faults below diskfs are not injected (no seam there); faults enter through the Filespace/Reader/Writer interfaces"},
	})
}


// c04TwoWriters: two tasks stream different contents onto one path of a memory-backed
// filespace at once (a memfs stream owns its file until Close, the second waits); a third
// reads. The file must end as exactly one of the two contents, a successful read must return
// exactly one of: nothing yet written (the initial content), content one, content two.
func c04TwoWriters(in *c04In, env *Env) *Failure {
	var post *Failure
	initial := "initial-content"
	one, two := in.Data, in.Prior
	res := env.Sim(SimOpts{MaxSteps: 60000, FairSteps: 30000}, func() {
		b := newBackend(in.Backend, &FaultState{FailAt: map[int]string{}}, false)
		defer b.cleanup()
		path := "dir/file"
		if err := b.clean.MkdirAll("dir", filesystem.DefaultUnixDirMode); err != nil {
			panic(harnessTrouble{"mkdir: " + err.Error()})
		}
		if err := b.clean.WriteFile(path, []byte(initial), filesystem.DefaultUnixFileMode); err != nil {
			panic(harnessTrouble{"initial: " + err.Error()})
		}
		var wg simrt.WaitGroup
		wg.Add(3)
		for i, content := range []string{one, two} {
			i, content := i, content
			simrt.GoNamed(fmt.Sprintf("writer%d", i), func() {
				defer wg.Done()
				if r := RunFsOp(b.clean, FsOp{Kind: "Writer", Path: path, Data: content, Chunks: in.Chunks}); (r.Err != nil || r.Panic != "") && post == nil {
					post = failf("C04/stream-write-refused", in.Backend+"/two-writers", "writer %d: err=%v panic=%s", i, r.Err, r.Panic)
				}
			})
		}
		simrt.GoNamed("reader", func() {
			defer wg.Done()
			for k := 0; k < 2; k++ {
				r := RunFsOp(b.clean, FsOp{Kind: []string{"Reader", "ReadFile"}[k], Path: path, Chunks: []int{3, 64}})
				if r.Panic != "" && post == nil {
					post = failf("C04/panic", in.Backend+"/two-writers", "reading while two writers stream: %s", r.Panic)
				}
				if got := string(r.Data); r.Err == nil && r.Panic == "" && got != initial && got != one && got != two && post == nil {
					post = failf("C04/stream-not-exact", in.Backend+"/two-writers/read", "a reader returned %s while two writers streamed %s and %s onto the path: none of the contents ever stored", short(got), short(one), short(two))
				}
				simrt.Yield()
			}
		})
		wg.Wait()
		if post != nil {
			return
		}
		got, err := b.clean.ReadFile(path)
		if err != nil {
			post = failf("C04/stream-not-exact", in.Backend+"/two-writers", "the file cannot be read after both writers closed: %v", err)
			return
		}
		if g := string(got); g != one && g != two {
			post = failf("C04/stream-not-exact", in.Backend+"/two-writers", "two writers streamed %s and %s onto one path; the file holds %s, neither of them", short(one), short(two), short(g))
		}
	})
	if f := env.SimFailure("C04", res); f != nil {
		return f
	}
	return post
}
