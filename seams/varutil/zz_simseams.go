package varutil

import "math/rand"

// SimSeed reseeds the package-level random source (simulation seam, scratch copy only).
func SimSeed(n int64) { src = rand.NewSource(n) }
