package idutil

// SimReset resets the process-global id counter (simulation seam, scratch copy only).
func SimReset() { id = 1 }

// SimSetHostID replaces the host identity used for host-bound keys and returns the old one.
func SimSetHostID(s string) (old string) {
	old = hostID
	hostID = s
	return old
}
